#!/usr/bin/env python3
"""Developer tool (never run by a check): expands the mechanism table below into
/verif/known_findings.jsonl. One mechanism = one genuine defect of the unchanged tree (DESIGN.md
section 8); each mechanism lists, per property, the abstract-case glob and the symptom classes through
which that property's check observes it. Patterns are as wide as the mechanism and no wider."""
import json, sys

FIXED = [
 ("C13","6e941ca","gobuild/field-name/{trailing-underscore,leading-underscore,double-underscore,digit-after-underscore,kw-string}/path/*","compile|vet","the Go client derived the Go field name of a path variable with its own snake-to-camel conversion instead of protoc-gen-go's: names with digits after underscores, leading/trailing/double underscores did not compile; a field named `string` resolved to the String method"),
 ("C01","6e941ca","deliver/place/path/*/optional/*","handler-not-reached|request-changed","the Go client formatted the struct member of a path variable (fmt.Sprint(req.ValX)): for a proto3 optional field that is a pointer, so the path carried the pointer's address (/pl/o3/0xc00001a0b8/tail) and the server answered 400 or bound the address text"),
 ("C04","3399969","codec/ts_unix_{seconds,millis}/*@*ts-year-1{500,677}","roundtrip-changed|canon-changed","UNIX_SECONDS/UNIX_MILLIS decoders built the intermediate time in the process's local zone and re-rendered it as RFC 3339 (offsets without seconds): under a zone whose offset at that instant has a seconds part (Asia/Kolkata +05:53:28 before 1906) {\"v\":-14831769600000} decoded to seconds:-14831769572"),
 ("C19","7dd3c12","rules/numeric-{gte,gt,lte,lt,gte+lte,gt+lt,gte=lte}/float/bound=inexact","schema-rejects-what-rules-accept","float32 rule bounds were widened with float64(): a bound such as 3.14159 was published as 3.141590118408203, so the JSON form of a value equal to the bound compared unequal to the published minimum/maximum"),
 ("C20","92ff240","mock/examples/same-short-name/*","value-outside-declared-examples","the mock's example table was keyed by the nested message path while the emitted lookups used the bare message name: examples on nested messages were never used and a nested message took the examples of a same-named top-level one"),
 ("C03","d36cb3a","route/base=noslash/*","handler-not-reached","base_path/path without a leading slash made the Go server register a host pattern (or panic at registration) while clients and OpenAPI used a slash-prefixed path"),
 ("C01","d36cb3a","deliver/route/base=noslash/*","handler-not-reached","same defect seen through Go client -> Go server delivery"),
 ("C14","c90a3ff","interchange/feat-nosvc/*","codec-file-missing-in-client","go-client skipped *_encoding.pb.go / *_enum_encoding.pb.go for files without services"),
 ("C04","c90a3ff","codec/int64_number/*","plugins-differ","client-only package of a service-less file encoded int64_encoding=NUMBER fields as strings"),
 ("C16","a8a95a5","terminate/recursive/*/go-http/param=generate_mock=true","oom","generate_mock=true on a recursive response type never terminated (unbounded memory)"),
 ("C20","a8a95a5","mock/recursive/*","generator-oom","same defect seen through the mock catalogue"),
 ("C18","1c3d3e7","oas/yaml11-names/json-vs-*","json-yaml-differ","format=json retyped YAML-1.1 boolean-looking names (a field named n became the property \"false\")"),
 ("C13","be5a135","gobuild/text/header-{description,example}/{quotes,newline,crlf}/*","unparsable-go-source","a header description/example containing a quote or a line break was pasted unquoted into a Go string literal (go-http) or a line comment (go-client): protogen reported 'unparsable Go source' and nothing was emitted"),
 ("C16","dfe72ea","terminate/text/field-example/empty/openapiv3/*","panic","an empty string among a field's (sebuf.http.field_examples) made protoc-gen-openapiv3 crash in the YAML renderer (nil dereference, no response)"),
 ("C19","4dfe284","rules/*/ignore=always","schema-rejects-what-rules-accept","fields with (buf.validate.field).ignore = IGNORE_ALWAYS still had their rules published as schema constraints and were listed as required"),
 ("C19","727f1e6","rules/numeric-gt*","invalid-schema","gt/lt rules were published as exclusiveMinimum/exclusiveMaximum: false (bound lost, boolean form invalid in OpenAPI 3.1)"),
]

# mechanism id -> (what, [ (property, case glob, [symptoms], detail glob or None) ... ])
M = {}

def mech(mid, what, rows):
    M[mid] = (what, rows)

ANY = ["*"]
# symptom classes through which the JSON-mapping checks see a wrong wire form (never "*": panics, races,
# 5xx and process deaths stay reportable on every case)
J5 = ["missing-key","extra-key","wrong-json-type","changed-value","request-changed","contract-form-rejected","status:st400"]
T7 = ["wrong-type","missing-property","undeclared-property","literal-mismatch","null-not-allowed"]
# annotation families whose codec only works at the top level of an RPC message
NESTED_FAMS = ["int64_number","enum_value","enum_number","nullable","empty_null","empty_omit","ts_unix_seconds","ts_unix_millis","ts_date",
               "bytes_base64_raw","bytes_base64url","bytes_base64url_raw","bytes_hex","oneof_nested","oneof_flatten","flatten","unwrap"]
NESTED_CTX = ["child","repeated","map","oneof","disc_nested","disc_flatten","flatten","unwrap_sibling","root_list"]

mech("octet-stream-client",
 "Go client treats only application/x-protobuf as binary: with application/octet-stream it sends a JSON body under a binary content type and decodes binary responses as JSON",
 [("C01","deliver/*/octet-stream*",["handler-not-reached","client-error"],None)])

mech("dot-segment-path-values",
 "a path-bound string value of '.' or '..' is not escaped by the clients; the HTTP stack cleans/redirects the path and the RPC is never reached (or, when another route covers the cleaned path, a different RPC is)",
 [("C01","deliver/*@#*:dot-segments|*",["handler-not-reached","wrong-handler"],None)])

mech("client-query-kinds",
 "Go client query-parameter code compares every field with a scalar zero literal: optional, repeated, enum and bytes query fields do not compile",
 [("C01","deliver/place/query/*/optional/*",["compile"],None),("C01","deliver/place/query/*/repeated/*",["compile"],None),
  ("C01","deliver/place/query/enum/singular/*",["compile"],None),("C01","deliver/place/query/bytes/singular/*",["compile"],None),
  ("C13","gobuild/query/*/optional/*client*",["compile"],None),("C13","gobuild/query/*/repeated/*client*",["compile"],None),
  ("C13","gobuild/query/enum/singular/*client*",["compile"],None),("C13","gobuild/query/bytes/*/*client*",["compile"],None)])

mech("repeated-bytes-encoding",
 "bytes_encoding on a repeated bytes field: emitted codec passes [][]byte to a []byte encoder (does not compile)",
 [(p, pre+"bytes_*/bytes/repeated*", ["compile"], None) for p,pre in [("C01","deliver/body/"),("C04","codec/"),("C05","json/"),("C13","gobuild/feature/")]])

mech("repeated-timestamp-format",
 "timestamp_format on a repeated Timestamp field: emitted codec calls AsTime on the slice (does not compile)",
 [(p, pre+"ts_*/timestamp/repeated*", ["compile"], None) for p,pre in [("C01","deliver/body/"),("C04","codec/"),("C05","json/"),("C13","gobuild/feature/")]])

mech("optional-int64-number",
 "int64_encoding=NUMBER on an optional field: emitted codec compares the pointer with 0 (does not compile)",
 [(p, pre+"int64_number/*/optional*", ["compile"], None) for p,pre in [("C01","deliver/body/"),("C04","codec/"),("C05","json/"),("C13","gobuild/feature/")]])

mech("unwrap-scalar-unused-import",
 "unwrap of scalar elements: *_unwrap.pb.go imports protojson without using it (does not compile)",
 [(p, pre+"unwrap/*/scalar*", ["compile"], None) for p,pre in [("C01","deliver/body/"),("C04","codec/"),("C05","json/"),("C13","gobuild/feature/")]])

mech("flatten-codec",
 "flatten: child fields are encoded through encoding/json (snake_case keys, int64 as numbers, enum numbers) and decoding resets the message after restoring the child, so the child is lost or its own output is rejected",
 [("C01","deliver/body/flatten/*",["request-changed","response-changed","handler-not-reached","client-error"],None),
  ("C04","codec/flatten/*",["roundtrip-changed","decode-own-output","canon-changed","canon-decode-error"],None),
  ("C05","json/flatten/*",J5+["status:st500"],None),("C05","json/*/ctx=flatten/*",J5+["status:st500"],None),
  ("C06","oasjson/flatten/*",["wire-json-violates-openapi"],None),
  ("C07","tstype/flatten/*",T7,None),("C07","tstype/*/ctx=flatten/*",T7,None)])

mech("oneof-flatten-codec",
 "oneof_config{flatten:true}: flattened variant fields are not restored on decode (own output rejected / variant changed)",
 [("C01","deliver/body/oneof_flatten/*",["handler-not-reached","client-error","request-changed","response-changed"],None),
  ("C04","codec/oneof_flatten/*",["decode-own-output","canon-changed","roundtrip-changed","canon-decode-error"],None),
  ("C05","json/oneof_flatten/*",J5,None,"*/disc"),("C05","json/*/ctx=disc_flatten/*",J5,None,"*/disc"),
  ("C07","tstype/oneof_flatten/*",["undeclared-property","missing-property","wrong-type","literal-mismatch"],"role:{*/?,/msg:dvar,/ovar(*,/}"),("C07","tstype/*/ctx=disc_flatten/*",["undeclared-property","missing-property","wrong-type","literal-mismatch"],"role:{*/?,/msg:dvar,/ovar(*,/}")])

mech("ts-flattened-variant-ignores-nullable",
 "TypeScript generators: a nullable field of a message that is a FLATTENED oneof variant is declared without `| null` in the flattened union member, while the Go codecs write null for it",
 [("C07","tstype/oneof_flatten/message/variants-with-codecs*",["null-not-allowed"],"role:/ovar(*")])

mech("mock-map-value-of-imported-message-ignores-examples",
 "generate_mock=true: a map whose value is a message declared in ANOTHER file/Go package is filled with the built-in defaults (\"example string\") although the value type declares field_examples (the same type used as a singular field does take them)",
 [("C20","mock/imported-message-types/other-go-package",["value-outside-declared-examples"],"string")])

mech("enum-value-not-applied",
 "enum_value custom JSON strings are only attached to the enum type's MarshalJSON, which protojson never calls: messages still carry proto enum names while OpenAPI and TypeScript publish the custom strings",
 [("C04","codec/enum_value/*",["canon-decode-error","canon-changed"],None),("C05","json/enum_value/*",J5,None),
  ("C06","oasjson/enum_value/*",["wire-json-violates-openapi"],"role:enum*"),("C07","tstype/enum_value/*",["literal-mismatch"],None)])

mech("enum-number-not-implemented",
 "enum_encoding=NUMBER is not implemented by the Go codecs (names are sent) although OpenAPI/TypeScript publish integers",
 [("C05","json/enum_number/*",J5,None),("C06","oasjson/enum_number/*",["wire-json-violates-openapi"],None),("C07","tstype/enum_number/*",["wrong-type"],None)])

mech("nested-annotations-ignored",
 "a parent message encodes/decodes its children with protojson, so a child's JSON-mapping annotations (int64 NUMBER, enum_value, nullable, empty_behavior, timestamp_format, bytes_encoding, oneof_config, flatten, unwrap) only apply when the annotated message is the top-level message of the RPC",
 [("C05","json/{%s}/*/ctx={%s}/*"%(",".join(NESTED_FAMS),",".join(NESTED_CTX)),J5,None),
  ("C06","oasjson/{%s}/*/ctx={child,repeated,map}/*"%",".join(NESTED_FAMS),["wire-json-violates-openapi"],None),
  ("C07","tstype/{%s}/*/ctx={%s}/*"%(",".join(NESTED_FAMS),",".join(NESTED_CTX)),T7,None)])

mech("disc-oneof-variant-codec",
 "discriminated oneof (oneof_config): variants are encoded/decoded with encoding/json instead of protojson, so inside a variant 64-bit integers are numbers, keys are Go/snake names, enums are numbers and well-known types lose their JSON form; contract-form variants are rejected",
 [("C05","json/*/ctx=disc_nested/*",J5,None,"*/disc"),("C05","json/oneof_nested/*",J5,None,"*/disc"),("C04","codec/oneof_nested/*",["roundtrip-changed","decode-own-output","canon-changed","canon-decode-error"],None),
  ("C06","oasjson/oneof_nested/*",["wire-json-violates-openapi"],None),("C06","oasjson/rules-in/oneof-nested-variant/*",["wire-json-violates-openapi"],"role:oneOf*"),("C01","deliver/body/oneof_nested/*",["request-changed","response-changed","handler-not-reached","client-error"],None)])

mech("unwrap-empty-list-null",
 "unwrap: an empty unwrapped list is encoded as JSON null instead of []",
 [("C05","json/unwrap/*/ctx=top/dir=resp*",["wrong-json-type"],None),("C06","oasjson/unwrap/*",["wire-json-violates-openapi"],"role:type*"),("C07","tstype/unwrap/*",["wrong-type","null-not-allowed"],None)])

mech("unwrap-of-root-unwrap",
 "a repeated unwrap field whose element type is itself a root-unwrap (map) message: emitted *_unwrap.pb.go does not compile",
 [("C05","json/unwrap/{root-map,combined}/message*",["compile"],None),("C13","gobuild/feature/unwrap/{root-map,combined}/message/ctx/*",["compile"],None),("C13","gobuild/feature/unwrap/{root-map,combined}/message/nested-after-map/ctx/*",["compile"],None),("C13","gobuild/feature/unwrap/{root-map,combined}/message/nested-in-fieldless-holder/ctx/*",["compile"],None),
  ("C07","tstype/unwrap/{root-map,combined}/message*",["compile"],None),("C06","oasjson/unwrap/{root-map,combined}/message*",["compile"],None)])

mech("body-bind-resets-url-fields",
 "Go server binds path/query parameters first and then unmarshals the body into the same message (protojson/proto Unmarshal reset it): with a non-empty body every URL-bound field that the body does not repeat is lost",
 [("C02","bind/go/*/{POST,PUT,PATCH}/body={empty-object,other-fields,protobuf-other-fields}@*",["url-value-not-delivered"],None)])

mech("ts-server-no-url-validation",
 "generated TS server converts URL values with Number()/=== \"true\" and never rejects: unconvertible values reach the handler (NaN), no 400 is produced",
 [("C02","bind/ts/*",["handler-reached-with-invalid-url-value"],None)])

mech("ts-server-requires-json-body",
 "generated TS server calls req.json() for POST/PUT/PATCH unconditionally: a request without a body (or with an empty one) fails with 500",
 [("C02","bind/ts/*/{POST,PUT,PATCH}/body={absent,empty,chunked-empty}@*",["handler-not-reached","status"],"st500")])

mech("ts-server-query-binding",
 "generated TS server binds query parameters only for GET/DELETE and reads a single value: query-annotated fields of body verbs are ignored and repeated query fields arrive as a scalar",
 [("C02","bind/ts/place/{query,query-required}/*/{POST,PUT,PATCH}/*",["url-value-not-delivered","handler-not-reached"],None),
  ("C02","bind/ts/place/query/*/repeated/*",["url-value-not-delivered"],None),
  ("C07","tstype/handler-arg/place/query/*/repeated/*",["wrong-type"],None)])

mech("non-finite-floats-vs-schema",
 "NaN/Infinity are sent as JSON strings (proto3 JSON) and as bare words in URLs while OpenAPI declares type number",
 [("C06","oasjson/*@*{nan,inf,-inf,list-all-classes}*",["wire-json-violates-openapi"],"role:type*"),("C06","oasparam/*@{nan,inf,-inf}",["wire-json-violates-openapi"],"role:type*")])

mech("wkt-schema-as-object",
 "well-known types other than Timestamp (Duration, …) are published as objects of their proto fields while the wire uses their proto3 JSON string form",
 [("C06","oasjson/none/messages/*",["wire-json-violates-openapi"],"role:type*")])

mech("nullable-enum-schema",
 "nullable enum: schema allows type null but its enum list lacks null",
 [("C06","oasjson/nullable/enum/*",["wire-json-violates-openapi"],"role:enum*")])

mech("oneof-flatten-schema",
 "flattened discriminated oneof: schema requires a variant (oneOf) and camelCase keys while the server sends snake_case child keys and nothing when no variant is set",
 [("C06","oasjson/oneof_flatten/*",["wire-json-violates-openapi"],None),("C06","oasjson/rules-in/oneof-flatten-variant/*@{default,no-variant}",["wire-json-violates-openapi"],"role:oneOf*")])

mech("ts-wkt-as-object",
 "TypeScript types well-known types other than Timestamp (Duration, …) as objects of their proto fields while the wire uses the proto3 JSON string form",
 [("C07","tstype/none/messages/*",["wrong-type"],None)])

mech("ts-server-path-params-are-strings",
 "generated TS server assigns path variables to the request object as strings whatever the field's declared type",
 [("C07","tstype/handler-arg/place/path/*",["wrong-type"],None)])

mech("ts-non-finite-floats",
 "NaN/Infinity travel as JSON strings (proto3 JSON) while TypeScript declares number",
 [("C07","tstype/*@*{nan,inf,-inf,list-all-classes}*",["wrong-type"],None)])

mech("ts-empty-null",
 "empty_behavior=NULL sends null for a set-but-empty message while TypeScript declares the property as `T | undefined` (optional, not nullable)",
 [("C07","tstype/empty_null/*",["null-not-allowed"],None)])

mech("go-header-uuid-format-weak",
 "Go server's uuid header format check only looks at length and dash positions: non-hex values are accepted",
 [("C09","hdr/go/*@*uuid-nonhex",["handler-reached-with-bad-header","body-read-before-header-verdict","violations-differ"],None)])

mech("ts-header-formats-shape-only",
 "TS server validates date/date-time/time headers by shape only (month 13, minute 61 pass) and accepts an empty value for number headers; a malformed body then surfaces as 500",
 [("C09","hdr/ts/*@*{dt-month13,date-month13,time-overflow,num-empty}",["handler-reached-with-bad-header","status"],None)])

mech("go-optional-override-ignored",
 "Go server merges only *required* declarations: a method-level optional header does not replace a service-level required one of the same name",
 [("C09","hdr/go/override/required->optional*",["valid-headers-rejected"],None)])

mech("ts-no-header-override",
 "TS server validates service-level and method-level declarations of the same header both (no method-replaces-service), also across case variants",
 [("C09","hdr/ts/override/*",["valid-headers-rejected","violations-differ"],None),("C09","hdr/ts/order/*override-*",["valid-headers-rejected","violations-differ"],None),("C09","hdr/ts/multi-method/override-in-one-method/method1-*",["valid-headers-rejected","violations-differ"],None),("C09","hdr/ts/many/*",["valid-headers-rejected","violations-differ"],None)])

mech("openapi-plain-scalar-retyping",
 "enum_value / example strings are written to the YAML document as plain scalars: a value such as .inf is read back as a float and format=json rendering panics",
 [("C18","oas/yaml-retyping/format=json",["no-document"],None)])

mech("openapi-short-schema-names",
 "component schemas are keyed by the message's short name: same-named messages from different scopes/packages share (overwrite) one schema",
 [("C18","oas/{imported-messages,shape/nested-types-and-enums,same-short-name/nested,same-short-name/top-vs-nested,same-short-name/imported}/*",["same-named-messages-share-schema"],None)])

mech("openapi-ref-with-slash",
 "flattened discriminated oneof: variant schema names are built from oneof_value; a value containing '/' yields an unresolvable $ref",
 [("C18","oas/{feat,feat-2svc,feat-shared,feat-twins}/oneof_flatten/*",["unresolved-ref"],None),("C06","oasjson/oneof_flatten/message/oneof_value*",["schema-has-unresolvable-reference"],None)])

mech("mock-typed-assignments",
 "mock generator assigns its int64/float64/bool/string example selectors to fields of other Go types (int32, float32, optional pointers, repeated slices) and addresses oneof members as plain fields: the mock file does not compile",
 [("C20","mock/*",["compile"],"_http_mock.pb.go: cannot use select*"),("C20","mock/recursive/oneof",["compile"],None),
  ("C13","gobuild/mock/*",["compile"],"_http_mock.pb.go*")])

mech("openapi-rules-int32-int64-only",
 "OpenAPI constraint extraction reads only the int32/int64/float/double rule messages: rules on uint32, uint64, sint32, sint64, fixed32, fixed64, sfixed32, sfixed64 fields are not published",
 [("C19","rules/numeric-*/{uint32,fixed32,sint32,sfixed32,uint64,fixed64,sint64,sfixed64}*",["schema-accepts-what-rules-reject"],None)])

mech("openapi-numeric-rules-on-string-int64",
 "64-bit integers are published as type string; numeric bounds/const/in on them are either inert or compare a number with a string",
 [("C19","rules/numeric-*/int64/*",["schema-accepts-what-rules-reject","schema-rejects-what-rules-accept"],None),
  ("C06","oasjson/rules/numeric-*/int64/*",["wire-json-violates-openapi"],None)])

mech("openapi-bounds-through-float64",
 "rule bounds are converted to float64: bounds beyond 2^53 are rounded",
 [("C19","rules/numeric-*/int64+int64number/bound={gt2p53,lt-2p53}*",["schema-accepts-what-rules-reject","schema-rejects-what-rules-accept"],None),
  ("C06","oasjson/rules/numeric-*/int64+int64number/bound={gt2p53,lt-2p53}*",["wire-json-violates-openapi"],None)])

mech("openapi-document-named-by-short-service-name",
 "the OpenAPI plugin names its output <Service>.openapi.<ext> without the proto package: two packages that declare the same service name (the usual v1/v2 layout) in one invocation emit the same file name twice, which protoc rejects; tools that concatenate get an unparsable document",
 [("C18","oas/versions/*",["duplicate-file-name","document-count","unparsable","operation-count"],None),
  ("C15","determinism/versions/*/openapiv3*/{permuted,single-vs-multi}",["nondeterministic"],None)])

mech("openapi-inverted-range-as-conjunction",
 "a range rule whose upper bound lies below its lower bound means 'outside the interval' (gt_lt_exclusive etc.); the document publishes both bounds as a conjunction, which no number satisfies",
 [("C19","rules/numeric-{gt>lt,gte>lte}/*",["schema-rejects-what-rules-accept"],None),
  ("C06","oasjson/rules/numeric-{gt>lt,gte>lte}/*",["wire-json-violates-openapi"],None)])

mech("hex-decode-error-swallowed",
 "bytes_encoding=HEX decoder ignores a hex decoding error and lets protojson base64-decode the same text: the handler receives bytes the client never sent",
 [("C11","malformed/server/bytes_hex/*",["body-leaf-altered"],None)])

mech("ts-client-repeated-query-comma-joined",
 "generated TS client writes a repeated query field as ONE comma-joined value (String(array)) while the Go server (and the published contract: an array parameter, form style, exploded) reads repeated keys: numeric lists are rejected, string lists arrive as one element",
 [("C08","interop/ts-client->go-server/place/query/*/repeated/*",["handler-not-reached","request-changed"],None)])

mech("ts-client-path-variable-ignores-json-name",
 "generated TS client fills a path variable from req.<lowerCamel of the variable> although the request interface names the property after the field's json_name: with an explicit json_name the URL carries the text 'undefined'",
 [("C08","interop/ts-client->go-server/place/path/*~json_name/*",["request-changed","handler-not-reached"],None)])

mech("query-enum-and-bytes-kinds",
 "enum and bytes fields bound to the query string: the TS client sends the enum name / the base64 text, the Go server's string conversion knows neither kind and answers 400",
 [("C08","interop/ts-client->go-server/place/query/{enum,bytes}/*",["handler-not-reached"],None)])

mech("binary-body-cut-short-tolerated",
 "the emitted binary-body binder ignores io.ErrUnexpectedEOF from reading the request body (the JSON binder does not): an upload that ends before its declared Content-Length is decoded from what arrived and dispatched",
 [("C11","malformed/server/*@proto-valid/cut-short-of-declared-length",["dispatched-undecodable-body","status"],None)])

mech("oneof-discriminator-errorf-vet",
 "*_oneof_discriminator.pb.go formats an error twice (fmt.Errorf with %w but no argument): fails the printf vet check that `go test` runs, and the message shows %!w(MISSING)/EXTRA noise",
 [("C13","gobuild/*",["vet"],"_oneof_discriminator.pb.go: fmt.Errorf call needs*")])

mech("two-codec-annotations-one-message",
 "every JSON-mapping feature emits its own MarshalJSON/UnmarshalJSON for the message: two such annotations on one message produce duplicate methods (flatten and oneof_config refuse instead)",
 [("C13","gobuild/pair/*",["compile"],"*already declared at*")])

mech("unwrap-parent-reencodes-siblings",
 "the unwrap codec of a parent message re-implements the encoding of all sibling fields and does not know optional, Timestamp, oneof or scalar-only layouts; a 64-bit sibling written as a JSON string (the proto3 JSON form) is rejected",
 [("C13","gobuild/pair/*",["compile"],"_unwrap.pb.go*"),
  ("C04","codec/unwrap/siblings/*",["canon-decode-error","decode-own-output"],"json: cannot unmarshal string into Go value of type int64*"),
  ("C05","json/unwrap/siblings/*/dir=req*",["contract-form-rejected"],"st400 json: cannot unmarshal string into Go value of type int64*")])

mech("annotations-on-oneof-members",
 "int64_encoding / bytes_encoding / timestamp_format / empty_behavior on a oneof member: emitted codec reads x.<Field> which does not exist for oneof members",
 [("C13","gobuild/oneof-member/*",["compile"],None)])

mech("package-level-names-per-method-and-file",
 "generated Go uses package-level identifiers derived from the bare method name (callPathParams, getCallHeaders) and per-file copies of shared helpers/constants: two services with a same-named method, or two service files in one package, do not compile",
 [("C13","gobuild/layout/{two-services-one-file,two-service-files-one-package}/*",["compile"],None)])

mech("service-without-methods",
 "a service without RPCs: emitted server/client files have unused variables and imports",
 [("C13","gobuild/layout/service-without-methods/*",["compile"],None)])

mech("cross-package-types-in-codecs",
 "unwrap/flatten codecs name element and child types without their package qualifier: messages from another Go package do not compile",
 [("C13","gobuild/layout/cross-package-reference/*",["compile"],None)])

mech("generated-identifiers-collide-with-messages",
 "a message named <Service>Server, <Service>Client or ServerOption collides with generated identifiers",
 [("C13","gobuild/type-name/message-named-{svc-server,svc-client,server-option}/*",["compile"],None)])

mech("header-helper-name-collisions",
 "Go client header helper options are named after the stripped header name: the same header at service and method level, or two headers that collapse to one name, are declared twice",
 [("C13","gobuild/header-name/*/both-levels/*",["compile"],"*redeclared*"),("C13","gobuild/header-name/two-that-collapse/*",["compile"],"*redeclared*")])

mech("go-client-header-option-identifiers",
 "Go client turns header names into option function names without sanitising: a header name containing a dot yields Go source that does not parse (protogen: unparsable Go source), so go-client emits nothing for the file",
 [("C13","gobuild/header-name/dot/*",["unparsable-go-source"],None)])

mech("ts-header-option-identifiers",
 "TS client turns header names into option identifiers without sanitising: a name starting with a digit or containing a dot yields invalid TypeScript",
 [("C13","tsload/header-name/{leading-digit,dot}/*",["ts-load"],None)])

mech("ts-default-elision",
 "the Go server omits default-valued fields (proto3 JSON) while the emitted TypeScript interfaces declare scalar, list and map properties as required",
 [("C07","tstype/*",["default-elided-property"],None)])

mech("ts-nested-discriminated-oneof",
 "a non-flattened discriminated oneof is typed in TypeScript as a nested property named after the oneof, while the wire carries the discriminator and the variant at the parent level",
 [("C07","tstype/oneof_nested/*",["undeclared-property","missing-property","wrong-type"],None),("C07","tstype/*/ctx=disc_nested/*",["undeclared-property","missing-property","wrong-type"],None)])

mech("ts-request-root-unwrap",
 "TypeScript request interfaces of root-unwrap messages keep the wrapper object although the server accepts (and the result type declares) the bare array/map",
 [("C07","tstype/unwrap/root-*/dir=req*",["wrong-type"],None),("C07","tstype/unwrap/combined/*/dir=req*",["wrong-type"],None),("C07","tstype/*/ctx=root_list/dir=req*",["wrong-type"],None)])

mech("empty-null-on-timestamp-decodes-to-braces",
 "empty_behavior=NULL on a google.protobuf.Timestamp field: MarshalJSON writes null for the empty value, UnmarshalJSON rewrites null to {} before protojson, and protojson rejects {} for a Timestamp (its JSON form is a string): the codec cannot read its own output, and the server answers 400 to the contract's form",
 [("C04","codec/empty_null/timestamp/singular*",["canon-decode-error","decode-own-output"],None),
  ("C05","json/empty_null/timestamp/singular*/ctx=top/dir=req*",["contract-form-rejected"],None),
  ("C01","deliver/body/empty_null/timestamp/singular*",["handler-not-reached","client-error","request-changed","response-changed"],None)])

mech("codec-names-child-type-of-another-go-package-unqualified",
 "flatten children, oneof_config variants (and an optional message next to an unwrap map) declared in a file of ANOTHER Go package: the emitted *_flatten / *_oneof_discriminator / *_unwrap code names the child type without its package qualifier (undefined: Addr), the package does not build",
 [("C04","codec-split/{flatten,oneof_flatten,oneof_nested,unwrap}/*/files=other-go-package",["split-differs"],"build outcome differs*"),
  ("C05","json-split/{flatten,oneof_flatten,oneof_nested,unwrap}/*/files=other-go-package",["split-differs"],"build outcome differs*"),
  ("C14","interchange-split/{flatten,oneof_flatten,oneof_nested,unwrap}/*/files=other-go-package",["split-differs"],"build outcome differs*")])

mech("timestamp-unix-extremes",
 "UNIX_SECONDS/UNIX_MILLIS codecs mishandle pre-epoch and extreme timestamps (negative values with nanos, min/max seconds)",
 [("C04","codec/ts_unix_*@{*ts-max,*ts-min,combo*}",["roundtrip-changed","decode-own-output","canon-changed","canon-decode-error"],None),
  ("C05","json/ts_unix_*/ctx=top/*",["request-changed","contract-form-rejected","changed-value","status"],None),
  ("C01","deliver/body/ts_unix_*@*ts-m{ax,in}*",["request-changed","response-changed","handler-not-reached","client-error"],None)])

mech("default-path-disagreement",
 "an RPC without an explicit path: Go server registers /<base|gopkg>/<snake_method>, Go/TS clients and TS server use /<base>/<lowerCamelMethod>, OpenAPI publishes /<base> (colliding operations) or /<Service>/<Method>",
 [("C03","route/*/cfg=absent/*",["handler-not-reached","path-mismatch","operation-missing","op-count"],None),
  ("C03","route/*/cfg=verb/*",["handler-not-reached","path-mismatch","operation-missing","op-count"],None),
  ("C18","oas/routes/*/main/*",["operation-count"],None)])

mech("query-on-body-verbs",
 "query-annotated fields of POST/PUT/PATCH requests: OpenAPI declares query parameters while both clients send the fields in the body (the TS server never reads them from the URL)",
 [("C03","route/*/cfg=bodyquery/*",["placement-mismatch"],None)])

mech("ts-server-duplicate-url",
 "generated TS server declares `const url` twice for a bodiless verb combining path variables and query parameters: the module does not load",
 [("C03","route/*/cfg=pathquery/*",["view-missing"],"ts-server*"),("C08","interop/load/*/cfg=pathquery/ts-server",["ts-load"],None),
  ("C08","interop/go-client->ts-server/route/*/cfg=pathquery/*",["ts-server-unusable"],None),("C08","interop/ts-client->ts-server/route/*/cfg=pathquery/*",["ts-server-unusable","ts-client-unusable"],None)])

def emit():
    out=[]
    out.append("# Known findings: genuine defects of the unchanged sebuf tree that are recorded rather than repaired")
    out.append("# (DESIGN.md section 8 explains each mechanism and why no small fix exists), plus \"fixed\" entries for")
    out.append("# the fix: commits. GENERATED by tools/gen_known.py (a developer tool; checks never write this file).")
    out.append("# `case` is a glob over the abstract case id ('*' = anything), `symptom` an exact symptom class or '*',")
    out.append("# `detail` an optional glob over the normalised detail. Open entries suppress a candidate only when")
    out.append("# case AND symptom (AND detail) match; fixed entries suppress nothing.")
    for prop,commit,case,sym,what in FIXED:
        out.append(json.dumps({"property":prop,"status":"fixed","commit":commit,"case":case,"symptom":sym,"what":f"fixed: property={prop} {commit} {what}"},ensure_ascii=False))
    for mid,(what,rows) in M.items():
        for row in rows:
            prop,case,syms,detail=row[:4]
            notd=row[4] if len(row)>4 else None
            plain=[s for s in syms if ":" not in s]
            special=[s for s in syms if ":" in s]
            if plain:
                e={"property":prop,"status":"open","mechanism":mid,"case":case,"symptom":"|".join(plain),"what":what}
                if detail: e["detail"]=detail
                if notd: e["not_detail"]=notd
                out.append(json.dumps(e,ensure_ascii=False))
            for s in special:
                s,d=s.split(":",1)
                e={"property":prop,"status":"open","mechanism":mid,"case":case,"symptom":s,"detail":d,"what":what}
                out.append(json.dumps(e,ensure_ascii=False))
    open('/verif/known_findings.jsonl','w').write("\n".join(out)+"\n")
    print("entries:",len(out)-6)

if __name__=="__main__":
    exec(open('/verif/tools/known_more.py').read()) if __import__('os').path.exists('/verif/tools/known_more.py') else None
    emit()
