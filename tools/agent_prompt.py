#!/usr/bin/env python3
"""dev aid: print the brief handed to an independent sub-agent that writes a seeded change.
The agent gets the text of ONE property, a private worktree and sandbox facts — nothing from /verif.
usage: tools/agent_prompt.py <Cxx> <worktree> <angle> [avoid-id ...]"""
import json, os, sys

pid, wt, angle = sys.argv[1], sys.argv[2], sys.argv[3]
avoid_ids = sys.argv[4:]
root = os.path.dirname(os.path.dirname(os.path.abspath(__file__)))
prop = next(json.loads(l) for l in open(os.path.join(root, "properties.jsonl")) if json.loads(l)["id"] == pid)

ANGLES = {
 "value": "a run-time VALUE or a SEQUENCE of operations (a boundary value, a particular earlier call, a particular order of calls or of plugin invocations) rather than a definition shape alone",
 "twosite": "TWO COOPERATING SITES: two edits in different functions/files (or one edit that interacts with an existing, untouched site) that each look reasonable on their own, and only together break the property",
 "shape": "an UNUSUAL BUT VALID DEFINITION SHAPE (a combination of features, names, nesting, multiple files/services/packages) that ordinary examples do not contain",
 "fault": "a FAULT or an unusual peer: a malformed/edge-case input from the other side, an error path, an option or plugin parameter that is rarely used, a retry or a second use of the same object",
 "interplay": "the INTERPLAY of two features that each work on their own (two annotations on neighbouring fields or on a message and the message nested in it, a header plus a query parameter, a path variable plus a body field, two services or two RPCs sharing a message, a plugin parameter plus an annotation)",
 "invocation": "the way the plugin is INVOKED or the run-time ENVIRONMENT of the emitted code (plugin parameters such as paths=source_relative, module=, M mappings, generate_mock, format; several files / packages / Go packages per invocation and their order; files without package or go_package; locale, time zone, GOMAXPROCS, HTTP/1.1 keep-alive or connection reuse of the emitted client and server)",
 "ts": "the TYPESCRIPT side: something in what protoc-gen-ts-client or protoc-gen-ts-server emit (internal/tsclientgen, internal/tsservergen, internal/tscommon) — URL building, option handling, error classes, route descriptors, header validation, type declarations — that only a particular value, option, declaration shape or sequence of calls exposes",
 "openapi": "the OPENAPI generator (internal/openapiv3, cmd/protoc-gen-openapiv3): schema conversion, parameters, responses, constraints, examples, component naming, rendering — broken only for a particular combination of declarations or parameters",
 "perf": "a PERFORMANCE optimisation in the generators or in the code they emit (caching, pooling, lazy initialisation, pre-computation, fewer allocations, parallelism, early exits) that is subtly wrong for some inputs, sequences or schedules",
 "feature": "a small, plausible NEW FEATURE or behaviour improvement (the kind a maintainer would welcome: better error messages, one more supported case, a convenience, stricter or laxer handling of an edge) whose implementation is subtly wrong for some inputs",
 "free": "anything specific of your choosing (a particular interleaving, multi-step sequence, unusual input, or two cooperating sites)",
}

avoid = []
for a in avoid_ids:
    p = os.path.join(root, "seeded", a, "meta.agent.json")
    if os.path.exists(p):
        s = json.load(open(p)).get("summary", "")
        avoid.append("- " + s[:420].replace("\n", " ") + ("…" if len(s) > 420 else ""))

avoid_txt = ("\nEarlier changes for this property already did the following; choose a DIFFERENT mechanism and a different place in the code:\n" + "\n".join(avoid) + "\n") if avoid else ""

print(f"""You are helping to evaluate a verification effort for the open-source project SebastienMelki/sebuf — a set of protoc plugins (cmd/protoc-gen-go-http, -go-client, -ts-client, -ts-server, -openapiv3; implementation under internal/) that generate Go/TypeScript HTTP servers, clients, custom JSON marshalers and OpenAPI v3.1 documents from annotated protobuf services.

Your private git worktree of the project is {wt} (detached HEAD). Work ONLY inside it. Never read, list or write /repo or /verif or anything under /root/.claude (not even `ls`), never commit, never push, never create branches, never run `git stash`.

## The property

{prop['id']} — {prop['title']}

"{prop['statement']}"

## Your task

Write a realistic change to sebuf's source (the kind of refactor, clean-up, optimisation or small feature a contributor could plausibly submit) that BREAKS this property, while
1. `go build ./...` still succeeds, and
2. the existing test suite gives exactly the same per-test results as before the change (`go test -vet=off -count=1 -json ./...`; compare the sets of passing tests before/after — on the unchanged tree `internal/openapiv3` already fails because `protoc` is not installed; that is expected and must be identical before and after. Do not edit, add or delete any existing test or testdata/golden file).

The break must need something SPECIFIC to manifest — for this assignment preferably {ANGLES[angle]}. Changes that ordinary use (the project's own examples, the simplest service with one POST RPC) would expose at once are not wanted. A subtle change that affects only some inputs is better than a blunt one.
{avoid_txt}
Also write a demonstration: a Go test in the directory `MUTANT/demo/` of your worktree (package of its own, every file guarded by the build tag `mutantdemo`) that FAILS with your change applied and PASSES on the unchanged tree. It must exercise the real code: build the plugin(s) from the worktree (`go build -o <tmp>/... ./cmd/...`), run them on a CodeGeneratorRequest, and — where the property is about emitted code — compile and run what they emit. Command: `go test -vet=off -count=1 -tags mutantdemo ./MUTANT/demo/`.

## Sandbox facts (no network at all)

- Go: use `/root/go/pkg/mod/golang.org/toolchain@v0.0.1-go1.24.7.linux-amd64/bin/go` with `export GOFLAGS=-mod=mod GOPROXY=off GOSUMDB=off GOTOOLCHAIN=local` in every shell call (environment does not persist between calls).
- There is NO `protoc` and NO `buf`. Build `descriptorpb.FileDescriptorProto`s in Go (set json_name, proto3_optional + synthetic oneofs, map entry messages as protoc would), include the transitive imports via `protodesc.ToFileDescriptorProto` of the linked-in files (`sebuf/http/annotations.proto`, `sebuf/http/headers.proto`, `buf/validate/validate.proto`, google/protobuf/*.proto are all linked into the module: packages `github.com/SebastienMelki/sebuf/http` and `buf.build/gen/go/bufbuild/protovalidate/...`), wrap them in a `pluginpb.CodeGeneratorRequest`, and pipe it to the plugin binary's stdin; parse `CodeGeneratorResponse` from stdout. `protoc-gen-go` can be built from the module cache: `go build -o <tmp>/protoc-gen-go google.golang.org/protobuf/cmd/protoc-gen-go`.
- The runtime module `buf.build/go/protovalidate` (imported by generated Go servers) is NOT in the module cache. To compile generated servers, create a small stand-in module with the same import path (API used: `protovalidate.New() (Validator, error)`, `Validator.Validate(proto.Message, ...ValidationOption) error`, `*protovalidate.ValidationError{{Violations []*Violation}}`, `Violation.Proto *validate.Violation`) and point to it with a `replace` directive in the scratch module's go.mod; also `replace github.com/SebastienMelki/sebuf => {wt}`.
- Node 22 is at `/root/.nvm/versions/node/v22.22.2/bin/node` and runs `.ts` files directly (type stripping; `--disable-warning=ExperimentalWarning`). No tsc.
- python3-vt has `jsonschema`; no PyYAML (convert YAML in Go: `go.yaml.in/yaml/v4` / `sigs.k8s.io/yaml` are in the module cache).
- DANGER: a plugin that loops can allocate tens of GB. Run plugin children as `sh -c 'ulimit -v 4194304; exec <plugin>'` and with a timeout.
- Put temporary files under your worktree (e.g. `{wt}/MUTANT/tmp`, delete them at the end) or `t.TempDir()`.

## Deliverables (all inside {wt}/MUTANT/)

- `patch.diff` — `git diff` of your source change only (no MUTANT/ files in it); it must apply with `git apply` on the unchanged tree.
- `demo/` — the demonstration test (+ a `RUN.txt` with the exact command).
- `meta.agent.json` — an object with the keys `property` ("{prop['id']}"), `summary` (what you changed and why it looks plausible), `needs` (what exactly is needed for the break to manifest), `why_tests_pass` (why the existing suite does not notice), `ran` (list of the commands you ran and what they printed, including the before/after comparison of the test suite and the demonstration with and without the change).

Before you finish: confirm the demonstration yourself both ways (unchanged tree → PASS, with change → FAIL), leave the change APPLIED in the worktree, remove temporary build output, and reply with a short summary (what the change is, what it needs to manifest, the demonstration result both ways).""")
