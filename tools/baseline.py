#!/usr/bin/env python3
# dev aid: run /repo's suite (hooks off) and check every stable_pass test of BASELINE.json still passes
import json,subprocess,os,sys
base=json.load(open('/root/.vp/BASELINE.json'))
want=set(base['stable_pass'])
env=dict(os.environ,GOFLAGS='-mod=mod',GOPROXY='off',GOSUMDB='off',GOTOOLCHAIN='local')
go='/root/go/pkg/mod/golang.org/toolchain@v0.0.1-go1.24.7.linux-amd64/bin/go'
p=subprocess.run([go,'test','-json','-vet=off','-count=1','-timeout','25m','./...'],cwd='/repo',env=env,capture_output=True,text=True)
res={}
for line in p.stdout.splitlines():
    try: e=json.loads(line)
    except Exception: continue
    if e.get('Test') and e.get('Action') in('pass','fail','skip'):
        res[e['Package']+'::'+e['Test']]=e['Action']
bad=[t for t in sorted(want) if res.get(t)!='pass']
print(f"stable_pass={len(want)} passing_now={sum(1 for t in want if res.get(t)=='pass')} missing_or_failing={len(bad)}")
for t in bad[:20]: print("  ",t,res.get(t))
sys.exit(1 if bad else 0)
