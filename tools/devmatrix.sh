#!/bin/bash
# dev aid (NOT how detection.json is produced — that is tools/matrix.sh, via `git -C /repo apply`):
# run seeded changes in parallel, each in a throw-away worktree of /repo selected with VERIF_REPO,
# from a private copy of /verif so evidence/replays of /verif are not touched. Every check is first
# run on the unchanged tree from the same copy; only signatures that the unchanged tree does not
# produce are counted (so a stale known_instances.tsv during development does not blur the picture).
# usage: tools/devmatrix.sh <tier> <id>[:<check>,...] ...     (env PAR=4, SEED=1)
tier="$1"; shift
export GOFLAGS=-mod=mod GOPROXY=off GOSUMDB=off GOTOOLCHAIN=local
dev=/var/tmp/vdev.$$
rsync -a --exclude .git --exclude replays --exclude .bin /verif/ "$dev/" || exit 2
(cd "$dev" && ./check --setup >/dev/null 2>&1) || { echo "setup failed"; exit 2; }
out=/var/tmp/devmatrix.out; mkdir -p "$out"
sigs() { grep '^VIOLATION' "$1" | sed -E 's/.*signature="([^"]*)".*/\1/' | sort -u; }
checks_of() {
  spec="$1"; id="${spec%%:*}"
  if [ "$id" = "$spec" ]; then
    c=$(python3 -c 'import json,sys; print(" ".join(r["check"] for r in json.load(open(sys.argv[1]))["runs"]))' "/verif/seeded/$id/detection.json" 2>/dev/null)
    [ -n "$c" ] || c="${id%%-*}"
  else
    c="$(echo "${spec#*:}" | tr ',' ' ')"
  fi
  echo "$c"
}
# baselines on the unchanged tree
all=""
for spec in "$@"; do all="$all $(checks_of "$spec")"; done
all=$(echo $all | tr ' ' '\n' | sort -u)
echo $all | tr ' ' '\n' | xargs -P "${PAR:-4}" -I{} sh -c 'VERIF_SEED='"${SEED:-1}"' VERIF_DIR='"$dev"' VERIF_BIN='"$dev"'/.bin/sebufverif '"$dev"'/check {} '"$tier"' > '"$out"'/base.{}.'"$tier"'.out 2>&1'
for c in $all; do sigs "$out/base.$c.$tier.out" > "$out/base.$c.$tier.sigs"; echo "baseline $c: $(wc -l < "$out/base.$c.$tier.sigs") signatures on the unchanged tree"; done
run_one() {
  spec="$1"; id="${spec%%:*}"; checks=$(checks_of "$spec")
  wt="/var/tmp/mwt.$$.$id"
  git -C /repo worktree add --detach "$wt" HEAD >/dev/null 2>&1 || { echo "$id: worktree failed"; return; }
  if ! git -C "$wt" apply "/verif/seeded/$id/patch.diff"; then echo "$id: patch does not apply"; else
    for c in $checks; do
      o="$out/$id.$c.$tier.out"
      VERIF_SEED="${SEED:-1}" VERIF_DIR="$dev" VERIF_REPO="$wt" VERIF_BIN="$dev/.bin/sebufverif" "$dev/check" "$c" "$tier" > "$o" 2>&1; ec=$?
      new=$(sigs "$o" | comm -23 - "$out/base.$c.$tier.sigs")
      echo "$id $c exit=$ec new_signatures=$(echo -n "$new" | grep -c .) harness=$(grep -c '^HARNESS' "$o") :: $(echo "$new" | cut -c1-150 | head -2 | tr '\n' ';')"
    done
  fi
  git -C /repo worktree remove --force "$wt" >/dev/null 2>&1; rm -rf "$wt"
}
n=0
for spec in "$@"; do
  run_one "$spec" &
  n=$((n+1))
  if [ "$n" -ge "${PAR:-4}" ]; then wait -n 2>/dev/null || wait; n=$((n-1)); fi
done
wait
rm -rf "$dev"
git -C /repo worktree prune
