#!/bin/bash
# dev aid (NOT how detection.json is produced — that is tools/matrix.sh, via `git -C /repo apply`):
# run seeded changes in parallel, each in a throw-away worktree of /repo selected with VERIF_REPO,
# from a private copy of /verif so evidence/replays of /verif are not touched.
# usage: tools/devmatrix.sh <tier> <id>[:<check>,...] ...     (env PAR=4, SEED=1)
tier="$1"; shift
export GOFLAGS=-mod=mod GOPROXY=off GOSUMDB=off GOTOOLCHAIN=local
dev=/var/tmp/vdev.$$
rsync -a --exclude .git --exclude replays --exclude .bin /verif/ "$dev/" || exit 2
(cd "$dev" && ./check --setup >/dev/null 2>&1) || { echo "setup failed"; exit 2; }
out=/var/tmp/devmatrix.out; mkdir -p "$out"
run_one() {
  spec="$1"; id="${spec%%:*}"
  if [ "$id" = "$spec" ]; then
    checks=$(python3 -c 'import json,sys; print(" ".join(r["check"] for r in json.load(open(sys.argv[1]))["runs"]))' "/verif/seeded/$id/detection.json" 2>/dev/null)
    [ -n "$checks" ] || checks="${id%%-*}"
  else
    checks="$(echo "${spec#*:}" | tr ',' ' ')"
  fi
  wt="/var/tmp/mwt.$$.$id"
  git -C /repo worktree add --detach "$wt" HEAD >/dev/null 2>&1 || { echo "$id: worktree failed"; return; }
  if ! git -C "$wt" apply "/verif/seeded/$id/patch.diff"; then echo "$id: patch does not apply"; else
    for c in $checks; do
      o="$out/$id.$c.$tier.out"
      VERIF_SEED="${SEED:-1}" VERIF_DIR="$dev" VERIF_REPO="$wt" VERIF_BIN="$dev/.bin/sebufverif" "$dev/check" "$c" "$tier" > "$o" 2>&1; ec=$?
      echo "$id $c exit=$ec violations=$(grep -c '^VIOLATION' "$o") harness=$(grep -c '^HARNESS' "$o") :: $(grep '^VIOLATION' "$o" | sed -E 's/.*signature="([^"]*)".*/\1/' | cut -c1-140 | head -2 | tr '\n' ';')"
    done
  fi
  git -C /repo worktree remove --force "$wt" >/dev/null 2>&1; rm -rf "$wt"
}
n=0
for spec in "$@"; do
  run_one "$spec" &
  n=$((n+1))
  if [ "$n" -ge "${PAR:-4}" ]; then wait -n 2>/dev/null || wait; n=$((n-1)); fi
done
wait
rm -rf "$dev"
git -C /repo worktree prune
