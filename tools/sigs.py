#!/usr/bin/env python3
# dev aid: print distinct (symptom|detail) with the *set of case prefixes* at a chosen depth
import sys,re,collections
depth=int(sys.argv[1]) if len(sys.argv)>1 else 99
g=collections.Counter()
for line in sys.stdin:
    m=re.search(r'signature="([^"]*)"',line)
    if not line.startswith("VIOLATION") or not m: continue
    parts=m.group(1).split("|")
    case="/".join(parts[1].split("/")[:depth]); sym=parts[2]; det="|".join(parts[3:])
    g[(sym,det[:110],case)]+=1
for (sym,det,case),n in sorted(g.items()):
    print(f"{n:4d} {sym} :: {det} :: {case}")
