#!/bin/sh
# dev aid: confirm a seeded change's own demonstration in a throw-away worktree of /repo:
# the demonstration must pass on the unchanged tree and fail with the change applied.
# usage: tools/demo.sh <seeded-id>...
export GOFLAGS=-mod=mod GOPROXY=off GOSUMDB=off GOTOOLCHAIN=local
GO=/root/go/pkg/mod/golang.org/toolchain@v0.0.1-go1.24.7.linux-amd64/bin/go; export GO
for id in "$@"; do
  wt=/var/tmp/demo-wt.$$.$id
  git -C /repo worktree add --detach "$wt" HEAD >/dev/null 2>&1 || { echo "$id: cannot create worktree"; continue; }
  mkdir -p "$wt/MUTANT"; cp -r "/verif/seeded/$id/demo" "$wt/MUTANT/demo"; cp "/verif/seeded/$id/patch.diff" "$wt/MUTANT/patch.diff"
  (cd "$wt" && $GO test -vet=off -count=1 -tags "mutantdemo c04demo c02demo c03bdemo c17demo" ./MUTANT/demo/ >"$wt/without.out" 2>&1); wo=$?
  (cd "$wt" && git apply MUTANT/patch.diff && $GO test -vet=off -count=1 -tags "mutantdemo c04demo c02demo c03bdemo c17demo" ./MUTANT/demo/ >"$wt/with.out" 2>&1); w=$?
  echo "$id demonstration: unchanged tree exit=$wo, with change exit=$w"
  [ -n "$KEEP" ] || { git -C /repo worktree remove --force "$wt"; rm -rf "$wt"; }
done
git -C /repo worktree prune
