#!/usr/bin/env python3
"""dev aid: close known_instances.tsv under the scalar KIND of a member where the observations say the kind does not
matter.  Random value combinations decide which of the 15 scalar kinds of a catch-all message happen to show a
recorded finding at a given seed (e.g. which repeated member of a flattened child is empty and therefore missing);
when one (property, mechanism, case, symptom) group has been observed for at least 8 of the 15 scalar kinds at the
same coordinate path, the remaining kinds are added.  Never run by a check; run after refine_known.sh /
extend_instances.sh.  usage: tools/close_instances.py"""
import re, collections, os
KINDS = ["string","bool","int32","sint32","sfixed32","uint32","fixed32","int64","sint64","sfixed64","uint64","fixed64","float","double","bytes"]
p = os.path.join(os.path.dirname(os.path.dirname(os.path.abspath(__file__))), "known_instances.tsv")
lines = open(p).read().split("\n")
head = [l for l in lines if l.startswith("#")]
body = [l for l in lines if l and not l.startswith("#")]
rx = re.compile(r"^(.*[(/])(" + "|".join(KINDS) + r")(:[a-z]+[\])/].*|:[a-z]+)$")
groups = collections.defaultdict(set)
for l in body:
    f = l.split("\t")
    if len(f) != 5: continue
    m = rx.match(f[4])
    if m:
        groups[(f[0], f[1], f[2], f[3], m.group(1), m.group(3))].add(m.group(2))
have = set(body); added = 0
for (prop, mech, case, sym, pre, suf), kinds in groups.items():
    if 8 <= len(kinds) < len(KINDS):
        for k in KINDS:
            l = "\t".join([prop, mech, case, sym, pre + k + suf])
            if l not in have:
                have.add(l); added += 1
open(p, "w").write("\n".join(head + sorted(have)) + "\n")
print("instances closed under scalar kind: +%d lines (%d total)" % (added, len(have)))
