// sebufverif is the driver of the runtime-monitoring checks for sebuf (see DESIGN.md).
package main

import (
	"fmt"
	"os"
	"os/signal"
	"runtime/debug"
	"sort"
	"strconv"
	"syscall"
	"verif/internal/lab"
	"verif/internal/values"

	"verif/internal/checks"
	"verif/internal/plugin"
	"verif/internal/report"
)

func usage() {
	fmt.Fprintln(os.Stderr, "usage: sebufverif <Cxx> quick|thorough | setup | replay <path> | probe <name> [plugin]")
	ids := make([]string, 0, len(checks.Registry))
	for id := range checks.Registry {
		ids = append(ids, id)
	}
	sort.Strings(ids)
	fmt.Fprintln(os.Stderr, "checks:", ids)
	os.Exit(2)
}

func main() {
	if len(os.Args) < 2 {
		usage()
	}
	scratch, err := plugin.NewScratch()
	if err != nil {
		fmt.Println("HARNESS-ERROR cannot create scratch:", err)
		os.Exit(2)
	}
	cleanup := func() {
		if os.Getenv("VERIF_KEEP") == "" {
			_ = os.RemoveAll(scratch)
		}
	}
	sigc := make(chan os.Signal, 1)
	signal.Notify(sigc, syscall.SIGINT, syscall.SIGTERM)
	go func() {
		<-sigc
		cleanup()
		os.Exit(130)
	}()
	code := run(scratch)
	cleanup()
	os.Exit(code)
}

func run(scratch string) int {
	seed := int64(1)
	if s := os.Getenv("VERIF_SEED"); s != "" {
		if v, err := strconv.ParseInt(s, 10, 64); err == nil {
			seed = v
		}
	}
	switch os.Args[1] {
	case "setup":
		tb, err := plugin.Build(scratch)
		if err != nil {
			fmt.Println("HARNESS-ERROR", err)
			return 2
		}
		_ = tb
		if err := checks.Setup(scratch); err != nil {
			fmt.Println("HARNESS-ERROR", err)
			return 2
		}
		fmt.Println("setup ok")
		return 0
	case "probe":
		tb, err := plugin.Build(scratch)
		if err != nil {
			fmt.Println("HARNESS-ERROR", err)
			return 2
		}
		return checks.Probe(tb, os.Args[2:])
	case "altcmp":
		tb, err := plugin.Build(scratch)
		if err != nil {
			fmt.Println("HARNESS-ERROR", err)
			return 2
		}
		return checks.AltCmp(tb, os.Args[2:])
	case "tsparse":
		return checks.TSParse(os.Args[2:])
	case "smoke":
		tb, err := plugin.Build(scratch)
		if err != nil {
			fmt.Println("HARNESS-ERROR", err)
			return 2
		}
		return checks.Smoke(tb)
	case "replay":
		if len(os.Args) < 3 {
			usage()
		}
		tb, err := plugin.Build(scratch)
		if err != nil {
			fmt.Println("HARNESS-ERROR", err)
			return 2
		}
		return checks.Replay(tb, os.Args[2], seed)
	}
	id := os.Args[1]
	fn, ok := checks.Registry[id]
	if !ok {
		usage()
	}
	tier := "quick"
	if len(os.Args) > 2 {
		tier = os.Args[2]
	}
	if t := os.Getenv("VERIF_TIER"); t != "" && len(os.Args) <= 2 {
		tier = t
	}
	if tier != "quick" && tier != "thorough" {
		usage()
	}
	tb, err := plugin.Build(scratch)
	if err != nil {
		// the subject does not build: nothing can be decided; this is a harness-level failure
		fmt.Println("HARNESS-ERROR", err)
		return 2
	}
	r := report.New(id, tier, seed)
	values.DefaultCombos = 4
	passes := 1
	if tier == "thorough" {
		values.DefaultCombos = 32
		// the thorough tier enumerates the whole catalogue under several concretisations (names,
		// field numbers, random members of value classes): pass 0 uses the seed itself
		passes = 3
	}
	if v, err := strconv.Atoi(os.Getenv("VERIF_PASSES")); err == nil && v > 0 {
		passes = v
	}
	var pluginRuns int64
	var passSeeds []int64
	for k := 0; k < passes; k++ {
		ps := seed
		ptb, pscratch := tb, scratch
		if k > 0 {
			ps = seed*7907 + int64(k)*104729
			pscratch = fmt.Sprintf("%s/pass-%d", scratch, k)
			var err error
			if ptb, err = tb.Sub(pscratch); err != nil {
				fmt.Println("HARNESS-ERROR", err)
				return 2
			}
		}
		passSeeds = append(passSeeds, ps)
		r.PassSeed = ps
		c := &checks.Ctx{TB: ptb, R: r, Tier: tier, Seed: ps, Scratch: pscratch, Full: checks.FullInQuick[id]}
		func() {
			defer func() {
				if p := recover(); p != nil {
					r.Harness(fmt.Sprintf("driver panic: %v", p))
					if os.Getenv("VERIF_DEBUG_PANIC") != "" {
						fmt.Fprintln(os.Stderr, string(debug.Stack()))
					}
					if os.Getenv("VERIF_DEBUG") != "" {
						panic(p)
					}
				}
			}()
			fn(c)
		}()
		pluginRuns += ptb.Runs.Load()
		if k > 0 && os.Getenv("VERIF_KEEP") == "" {
			_ = os.RemoveAll(pscratch)
		}
	}
	r.Set("plugin_runs", pluginRuns)
	if n := lab.DecoyRuns.Load(); n > 0 {
		r.Set("plugin_invocations_preceded_by_a_decoy_twin", n)
		r.Set("decoy_invocations_refused_then_run_plain", lab.DecoyFallbacks.Load())
	}
	r.Set("passes", passes)
	r.Set("pass_seeds", passSeeds)
	return r.Finish()
}
