#!/usr/bin/env python3
"""Batch JSON Schema (Draft 2020-12) validation for the sebuf verification lab.
stdin : {"jobs":[{"id":..., "schema":{...}, "instance":..., "root":{...optional document for $ref resolution}}]}
stdout: {"results":[{"id":..., "valid":bool, "error":str|None, "schema_error":str|None}], "validator":"jsonschema x.y"}
`format` is annotation-only (the Draft 2020-12 default). No oracle logic lives here."""
import json, sys
import jsonschema
from jsonschema import Draft202012Validator

def _ver():
    try:
        from importlib.metadata import version
        return version("jsonschema")
    except Exception:
        return "?"

def main():
    data = json.load(sys.stdin)
    out = []
    docs = data.get("documents", {})
    checked = {}
    for job in data["jobs"]:
        res = {"id": job["id"], "valid": None, "error": None, "schema_error": None}
        schema = job["schema"]
        try:
            root = docs.get(job.get("doc")) if job.get("doc") else None
            if root is not None:
                # resolve "#/components/..." refs against the document: embed components next to the schema
                wrapped = {"$schema": "https://json-schema.org/draft/2020-12/schema", "components": root.get("components", {})}
                if isinstance(schema, dict):
                    wrapped.update(schema)
                else:
                    wrapped = schema
                schema = wrapped
            # the wrapped schema embeds the whole components section: checking it against the meta-schema is
            # by far the most expensive step, and identical for every job that uses the same (document, schema)
            key = (job.get("doc"), json.dumps(job["schema"], sort_keys=True, default=str))
            if key not in checked:
                try:
                    Draft202012Validator.check_schema(schema)
                    checked[key] = None
                except Exception as e:  # schema itself is not a valid 2020-12 schema
                    checked[key] = str(e).splitlines()[0][:300]
            if checked[key] is not None:
                res["schema_error"] = checked[key]
            v = Draft202012Validator(schema)
            errs = sorted(v.iter_errors(job["instance"]), key=lambda e: list(e.absolute_path))
            res["valid"] = not errs
            if errs:
                e = errs[0]
                res["error"] = ("%s at /%s: %s" % (e.validator, "/".join(str(p) for p in e.absolute_path), e.message))[:300]
                res["keyword"] = e.validator
                res["path"] = "/" + "/".join(str(p) for p in e.absolute_path)
        except Exception as e:
            res["schema_error"] = ("%s: %s" % (type(e).__name__, e))[:300]
        out.append(res)
    json.dump({"results": out, "validator": "jsonschema " + _ver()}, sys.stdout)

if __name__ == "__main__":
    main()
