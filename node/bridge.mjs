// Node side of the verification lab: loads sebuf-generated TypeScript modules (type
// stripping), serves generated TS servers over node:http with recording handlers, and
// drives generated TS clients. JSONL commands on stdin, JSONL events on stdout.
// It contains no oracle logic.
import http from "node:http";
import readline from "node:readline";
import { pathToFileURL } from "node:url";

let seq = 0;
function emit(ev) {
  ev.seq = ++seq;
  process.stdout.write(JSON.stringify(ev) + "\n");
}

const modules = new Map();
async function load(file) {
  if (modules.has(file)) return modules.get(file);
  const m = await import(pathToFileURL(file).href);
  modules.set(file, m);
  return m;
}

function errInfo(e) {
  if (e == null) return { cls: "null" };
  const info = {
    cls: e?.constructor?.name ?? typeof e,
    name: e?.name,
    message: String(e?.message ?? e),
  };
  if (e.violations !== undefined) info.violations = e.violations;
  if (e.statusCode !== undefined) info.statusCode = e.statusCode;
  if (e.body !== undefined) info.body = e.body;
  if (e.stack) info.stack = String(e.stack).split("\n").slice(0, 6).join("\n");
  return info;
}

// ---- servers ----
const servers = new Map();

function matchTemplate(tmpl, pathname) {
  const ts = tmpl.split("/");
  const ps = pathname.split("/");
  if (ts.length !== ps.length) return false;
  for (let i = 0; i < ts.length; i++) {
    const t = ts[i];
    if (t.startsWith("{") && t.endsWith("}")) {
      if (ps[i] === "") return false;
      continue;
    }
    if (t !== ps[i]) return false;
  }
  return true;
}

function buildThrow(mod, spec) {
  switch (spec.kind) {
    case "validation":
      return new mod.ValidationError(spec.violations ?? []);
    case "api":
      return new mod.ApiError(spec.statusCode ?? 500, spec.message ?? "api", spec.body ?? "");
    case "string":
      return spec.message ?? "thrown string";
    case "foreign-validation-error": {
      // what validation libraries throw: an Error of ANOTHER class that is also called ValidationError
      class ValidationError extends Error {
        constructor(m) { super(m); this.name = "ValidationError"; this.errors = ["x is required"]; }
      }
      return new ValidationError(spec.message ?? "foreign validation failed");
    }
    case "named-like-api-error": {
      const e = new Error(spec.message ?? "looks like an ApiError");
      e.name = "ApiError"; e.statusCode = 404; e.body = "{}";
      return e;
    }
    case "type-error":
      return new TypeError(spec.message ?? "x is not a function");
    case "object":
      return { message: spec.message ?? "plain object thrown", code: 7 };
    case "null":
      return null;
    default:
      return new Error(spec.message ?? "handler failed");
  }
}

async function serve(cmd) {
  const mod = await load(cmd.file);
  const factory = mod[cmd.factory];
  if (typeof factory !== "function") {
    emit({ ev: "error", id: cmd.id, err: "no factory " + cmd.factory });
    return;
  }
  const st = { id: cmd.id, scripts: new Map(), entries: 0 };
  const handler = new Proxy(
    {},
    {
      get(_t, prop) {
        if (typeof prop !== "string") return undefined;
        return async (ctx, req) => {
          st.entries++;
          emit({
            ev: "handler", srv: st.id, rpc: prop, req: req === undefined ? null : req, req_json: JSON.stringify(req),
            path_params: ctx?.pathParams, headers: ctx?.headers,
          });
          const sc = st.scripts.get(prop) ?? st.scripts.get("*");
          if (!sc) return {};
          if (sc.throw) throw buildThrow(mod, sc.throw);
          return sc.resp ?? {};
        };
      },
    },
  );
  const options = {};
  if (cmd.onError === "custom") {
    options.onError = (err, _req) =>
      new Response(JSON.stringify({ hooked: String(err?.message ?? err) }), { status: 418, headers: { "Content-Type": "application/json", "X-Hook": "seen" } });
  }
  if (cmd.validate) {
    options.validateRequest = (methodName, body) => {
      const v = cmd.validate[methodName];
      return v && v.length ? v : undefined;
    };
  }
  let routes;
  try {
    routes = factory(handler, options);
  } catch (e) {
    emit({ ev: "error", id: cmd.id, err: "factory threw: " + String(e) });
    return;
  }
  const server = http.createServer(async (ireq, ires) => {
    const chunks = [];
    for await (const c of ireq) chunks.push(c);
    const body = Buffer.concat(chunks);
    const url = "http://" + (ireq.headers.host ?? "localhost") + ireq.url;
    const pathname = ireq.url.split("?")[0];
    const matches = routes.filter((r) => r.method === ireq.method && matchTemplate(r.path, pathname));
    const rec = { ev: "wire", srv: st.id, method: ireq.method, uri: ireq.url, headers: ireq.headers, body: body.toString("base64"), matched: matches.map((r) => r.method + " " + r.path) };
    if (matches.length === 0) {
      ires.writeHead(404, { "Content-Type": "text/plain", "X-Lab-Bridge": "no-route" });
      ires.end("lab bridge: no route");
      rec.status = 404;
      rec.bridge_no_route = true;
      emit(rec);
      return;
    }
    try {
      const headers = new Headers();
      for (const [k, v] of Object.entries(ireq.headers)) {
        if (Array.isArray(v)) for (const x of v) headers.append(k, x);
        else if (v !== undefined) headers.set(k, v);
      }
      const init = { method: ireq.method, headers };
      if (ireq.method !== "GET" && ireq.method !== "HEAD") init.body = body;
      const req = new Request(url, init);
      const resp = await matches[0].handler(req);
      const rb = Buffer.from(await resp.arrayBuffer());
      const rh = {};
      resp.headers.forEach((v, k) => (rh[k] = v));
      ires.writeHead(resp.status, rh);
      ires.end(rb);
      rec.status = resp.status;
      rec.resp_headers = rh;
      rec.resp_body = rb.toString("base64");
      emit(rec);
    } catch (e) {
      rec.status = 599;
      rec.route_threw = errInfo(e);
      emit(rec);
      ires.writeHead(599, { "Content-Type": "text/plain", "X-Lab-Bridge": "route-threw" });
      ires.end(String(e));
    }
  });
  server.listen(0, "127.0.0.1", () => {
    st.server = server;
    servers.set(cmd.id, st);
    emit({ ev: "serving", id: cmd.id, url: "http://127.0.0.1:" + server.address().port, routes: routes.map((r) => ({ method: r.method, path: r.path })) });
  });
}

// ---- clients ----
const reusedClients = new Map();

async function call(cmd) {
  const mod = await load(cmd.file);
  const Cls = mod[cmd.cls];
  if (typeof Cls !== "function") {
    emit({ ev: "error", id: cmd.id, err: "no class " + cmd.cls });
    return;
  }
  const copts = { ...(cmd.copts ?? {}) };
  const captured = [];
  if (cmd.inject) {
    // record-only fetch: captures the request and answers with a canned response
    copts.fetch = async (url, init) => {
      captured.push({ url: String(url), method: init?.method, headers: init?.headers, body: init?.body ?? null });
      const c = cmd.inject;
      return new Response(c.body ?? "{}", { status: c.status ?? 200, headers: c.headers ?? { "Content-Type": "application/json" } });
    };
  }
  const ev = { ev: "client_return", id: cmd.id };
  try {
    // cmd.reuse: keep one client object per key, so a sequence of calls runs on the same instance
    let client = cmd.reuse ? reusedClients.get(cmd.reuse) : undefined;
    if (!client) {
      client = new Cls(cmd.url, copts);
      if (cmd.reuse) reusedClients.set(cmd.reuse, client);
    }
    if (typeof client[cmd.method] !== "function") {
      emit({ ev: "error", id: cmd.id, err: "no method " + cmd.method });
      return;
    }
    const ac = new AbortController();
    const t = setTimeout(() => ac.abort(), cmd.timeout_ms ?? 20000);
    try {
      const opts = { ...(cmd.opts ?? {}), signal: ac.signal };
      const resp = await client[cmd.method](cmd.req, opts);
      ev.resp = resp === undefined ? null : resp;
      ev.resp_json = JSON.stringify(resp);
    } finally {
      clearTimeout(t);
    }
  } catch (e) {
    ev.err = errInfo(e);
  }
  if (cmd.inject) ev.captured = captured;
  emit(ev);
}

async function dispatch(cmd) {
  switch (cmd.op) {
    case "load":
      try {
        const m = await load(cmd.file);
        emit({ ev: "loaded", id: cmd.id, exports: Object.keys(m) });
      } catch (e) {
        emit({ ev: "load_error", id: cmd.id, err: String(e?.message ?? e), cls: e?.constructor?.name });
      }
      break;
    case "serve":
      await serve(cmd);
      break;
    case "script": {
      const st = servers.get(cmd.srv);
      if (!st) {
        emit({ ev: "error", id: cmd.id, err: "unknown server" });
        break;
      }
      st.scripts.set(cmd.rpc || "*", cmd.script);
      break;
    }
    case "call":
      await call(cmd);
      break;
    case "sync":
      emit({ ev: "synced", id: cmd.id });
      break;
    case "stop": {
      const st = servers.get(cmd.srv);
      if (st) {
        st.server.close();
        st.server.closeAllConnections?.();
        servers.delete(cmd.srv);
      }
      emit({ ev: "stopped", id: cmd.id });
      break;
    }
    case "quit":
      process.exit(0);
    default:
      emit({ ev: "error", id: cmd.id, err: "unknown op " + cmd.op });
  }
}

process.on("uncaughtException", (e) => emit({ ev: "panic", where: "uncaught", value: String(e), stack: e?.stack }));
process.on("unhandledRejection", (e) => emit({ ev: "panic", where: "unhandledRejection", value: String(e), stack: e?.stack }));

const rl = readline.createInterface({ input: process.stdin, crlfDelay: Infinity });
emit({ ev: "ready", pid: process.pid, node: process.version });
let chain = Promise.resolve();
rl.on("line", (line) => {
  if (!line.trim()) return;
  let cmd;
  try {
    cmd = JSON.parse(line);
  } catch (e) {
    emit({ ev: "error", err: "bad command: " + e });
    return;
  }
  // commands are executed strictly in order
  chain = chain.then(() => dispatch(cmd)).catch((e) => emit({ ev: "panic", where: "op:" + cmd.op, id: cmd.id, value: String(e), stack: e?.stack }));
});
rl.on("close", () => chain.then(() => process.exit(0)));
