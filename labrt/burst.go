package labrt

import (
	"bytes"
	"context"
	"encoding/json"
	"fmt"
	"io"
	"net/http"
	"runtime/debug"
	"sort"
	"strings"
	"sync"
	"sync/atomic"
	"time"

	"google.golang.org/protobuf/encoding/protojson"
	"google.golang.org/protobuf/proto"
	"google.golang.org/protobuf/reflect/protoreflect"
)

func protoreflectString(s string) protoreflect.Value { return protoreflect.ValueOfString(s) }

type burstCall struct {
	Client  string `json:"client"`
	RPC     string `json:"rpc"`
	ReqType string `json:"req_type"`
	Req     string `json:"req"`
	Hdr     []KV   `json:"hdr"`
	CallCT  string `json:"callct"`
	Helpers []KV   `json:"helpers"`
	Extra   []KV   `json:"extra"`
	Raw     *rawCall `json:"raw"` // when set: a plain HTTP request instead of a generated-client call
}

// rawCall is a hand-made request sent inside a burst (malformed bodies / URL values that a
// generated client cannot produce), interleaved with generated-client calls.
type rawCall struct {
	Method string `json:"method"`
	Target string `json:"target"`
	Hdr    []KV   `json:"hdr"`
	Body   string `json:"body"` // b64
}

type burstSpec struct {
	URL      string      `json:"url"`
	Srv      string      `json:"srv"`
	Calls    []burstCall `json:"calls"`
	Parallel int         `json:"parallel"`
	CT       string      `json:"ct"`
	DefHdr   []KV        `json:"defhdr"`
	CHelpers []KV        `json:"chelpers"`
	Timeout  int         `json:"timeout_ms"`
	PerCallClient bool   `json:"per_call_client"`
}

var (
	burstMu  sync.Mutex
	burstLog []map[string]any
)

func burstRecord(ev map[string]any) {
	burstMu.Lock()
	burstLog = append(burstLog, ev)
	burstMu.Unlock()
}

// SeenHeaders renders the request headers a handler saw, restricted to the ones a workload
// controls (X-*, Authorization, Content-Type), sorted.
func SeenHeaders(h http.Header) string {
	var ks []string
	for k := range h {
		lk := strings.ToLower(k)
		if strings.HasPrefix(lk, "x-") || lk == "authorization" || lk == "content-type" {
			ks = append(ks, k)
		}
	}
	sort.Strings(ks)
	var b strings.Builder
	for _, k := range ks {
		fmt.Fprintf(&b, "%s=%s;", k, strings.Join(h[k], ","))
	}
	return b.String()
}

// FillSeen sets the response's lab_seen_headers field (if it has one) from the request context.
func FillSeen(ctx context.Context, out proto.Message) {
	ri, _ := ctx.Value(ctxKey{}).(*reqInfo)
	if ri == nil || out == nil {
		return
	}
	fd := out.ProtoReflect().Descriptor().Fields().ByName("lab_seen_headers")
	if fd == nil {
		return
	}
	out.ProtoReflect().Set(fd, protoreflectString(SeenHeaders(ri.hdr)))
}

func doBurst(c *cmd) {
	b := c.Burst
	if b == nil {
		emit(map[string]any{"ev": "error", "id": c.ID, "err": "no burst spec"})
		return
	}
	srvMu.Lock()
	s := srvs[b.Srv]
	srvMu.Unlock()
	if s != nil {
		s.quiet.Store(true)
		defer s.quiet.Store(false)
	}
	burstMu.Lock()
	burstLog = nil
	burstMu.Unlock()
	to := time.Duration(b.Timeout) * time.Millisecond
	if to == 0 {
		to = 60 * time.Second
	}
	hc := &http.Client{Transport: &http.Transport{MaxIdleConnsPerHost: 128, MaxConnsPerHost: 0}}
	defer hc.CloseIdleConnections()
	// the *http.Client handed to the generated clients is shared by every call of the burst (and
	// http.DefaultClient by the whole process): calls may use it, never reconfigure it
	sharedState := func() string {
		d := http.DefaultClient
		return fmt.Sprintf("given{timeout=%v transport=%p redirect=%v jar=%v} default{timeout=%v transport=%v redirect=%v jar=%v defaultTransport=%p}",
			hc.Timeout, hc.Transport, hc.CheckRedirect != nil, hc.Jar != nil, d.Timeout, d.Transport != nil, d.CheckRedirect != nil, d.Jar != nil, http.DefaultTransport)
	}
	sharedBefore := sharedState()
	shared := map[string]map[string]Invoker{}
	mk := func(client string) (map[string]Invoker, error) {
		reg, ok := clients[client]
		if !ok {
			return nil, fmt.Errorf("unknown client %s", client)
		}
		return reg(b.URL, ClientOpts{HTTP: hc, ContentType: b.CT, DefaultHeaders: b.DefHdr, Helpers: b.CHelpers}), nil
	}
	if !b.PerCallClient {
		for _, bc := range b.Calls {
			if bc.Raw != nil && bc.Client == "" {
				continue // a hand-made request needs no generated client
			}
			if _, ok := shared[bc.Client]; !ok {
				inv, err := mk(bc.Client)
				if err != nil {
					emit(map[string]any{"ev": "error", "id": c.ID, "err": err.Error()})
					return
				}
				shared[bc.Client] = inv
			}
		}
	}
	results := make([]map[string]any, len(b.Calls))
	var next atomic.Int64
	par := b.Parallel
	if par <= 0 {
		par = 1
	}
	start := make(chan struct{})
	var wg sync.WaitGroup
	for g := 0; g < par; g++ {
		wg.Add(1)
		go func() {
			defer wg.Done()
			<-start
			for {
				i := int(next.Add(1) - 1)
				if i >= len(b.Calls) {
					return
				}
				bc := b.Calls[i]
				res := map[string]any{"idx": i}
				results[i] = res
				func() {
					defer func() {
						if p := recover(); p != nil {
							res["panic"] = fmt.Sprint(p)
							res["stack"] = string(debug.Stack())
						}
					}()
					if bc.Raw != nil {
						ctx, cancel := context.WithTimeout(context.Background(), to)
						defer cancel()
						hreq, err := http.NewRequestWithContext(ctx, bc.Raw.Method, b.URL+bc.Raw.Target, bytes.NewReader(unb64(bc.Raw.Body)))
						if err != nil {
							res["harness"] = err.Error()
							return
						}
						for _, kv := range bc.Raw.Hdr {
							hreq.Header.Add(kv.K, kv.V)
						}
						hresp, err := hc.Do(hreq)
						if err != nil {
							res["err"] = map[string]any{"class": "transport", "text": err.Error()}
							if ctx.Err() != nil {
								res["timeout"] = true
							}
							return
						}
						body, _ := io.ReadAll(hresp.Body)
						hresp.Body.Close()
						res["status"] = hresp.StatusCode
						res["body"] = b64(body)
						res["ct"] = hresp.Header.Get("Content-Type")
						if h := hresp.Header.Get("X-Hook"); h != "" {
							res["hook_header"] = h
						}
						return
					}
					inv := shared[bc.Client]
					if b.PerCallClient {
						var err error
						inv, err = mk(bc.Client)
						if err != nil {
							res["harness"] = err.Error()
							return
						}
					}
					f, ok := inv[bc.RPC]
					if !ok {
						res["harness"] = "unknown rpc " + bc.RPC
						return
					}
					req, err := newMsg(bc.ReqType)
					if err != nil {
						res["harness"] = err.Error()
						return
					}
					if err := proto.Unmarshal(unb64(bc.Req), req); err != nil {
						res["harness"] = err.Error()
						return
					}
					ctx, cancel := context.WithTimeout(context.Background(), to)
					defer cancel()
					resp, cerr := f(ctx, req, CallOpts{Headers: bc.Hdr, ContentType: bc.CallCT, Helpers: bc.Helpers, Extra: bc.Extra})
					if cerr != nil {
						res["err"] = describeErr(cerr)
						if ctx.Err() != nil {
							res["timeout"] = true
						}
					}
					if resp != nil {
						w, _ := proto.MarshalOptions{Deterministic: true}.Marshal(resp)
						res["resp"] = b64(w)
					}
				}()
			}
		}()
	}
	close(start)
	wg.Wait()
	burstMu.Lock()
	log := burstLog
	burstLog = nil
	burstMu.Unlock()
	done := map[string]any{"ev": "burst_done", "id": c.ID, "results": results, "handlers": log, "shared_client_state": sharedBefore}
	if after := sharedState(); after != sharedBefore {
		done["shared_client_changed"] = sharedBefore + " -> " + after
	}
	emit(done)
}

// doCodecBurst marshals ONE shared message object from Parallel goroutines (Rounds times each)
// through exactly the entry points the generated server and client use, and unmarshals the shared
// JSON bytes into a fresh message per goroutine. A codec must treat its receiver (marshal) and its
// input (unmarshal) as read-only: the race detector watches the accesses, and the op reports the
// distinct outputs seen and the wire form of the shared object before and after.
func doCodecBurst(c *cmd) {
	ev := map[string]any{"ev": "codecburst_out", "id": c.ID}
	defer func() {
		if p := recover(); p != nil {
			ev["panic"] = fmt.Sprint(p)
			ev["stack"] = string(debug.Stack())
		}
		emit(ev)
	}()
	m, err := newMsg(c.Type)
	if err != nil {
		ev["harness"] = err.Error()
		return
	}
	if err := proto.Unmarshal(unb64(c.In), m); err != nil {
		ev["harness"] = "bad wire: " + err.Error()
		return
	}
	marshal := func(x proto.Message) ([]byte, error) {
		if mj, ok := x.(json.Marshaler); ok {
			return mj.MarshalJSON()
		}
		return protojson.Marshal(x)
	}
	_, ev["custom"] = m.(json.Marshaler)
	before, _ := proto.MarshalOptions{Deterministic: true}.Marshal(m)
	first, ferr := marshal(m)
	if ferr != nil {
		ev["first_err"] = ferr.Error()
	}
	par, rounds := c.Parallel, c.Rounds
	if par <= 0 {
		par = 4
	}
	if rounds <= 0 {
		rounds = 10
	}
	var mu sync.Mutex
	outs := map[string]int{}
	decs := map[string]int{}
	var panics []string
	start := make(chan struct{})
	var wg sync.WaitGroup
	for g := 0; g < par; g++ {
		wg.Add(1)
		go func() {
			defer wg.Done()
			defer func() {
				if p := recover(); p != nil {
					mu.Lock()
					panics = append(panics, fmt.Sprint(p)+"\n"+string(debug.Stack()))
					mu.Unlock()
				}
			}()
			<-start
			for r := 0; r < rounds; r++ {
				o, err := marshal(m)
				k := "ok:" + string(o)
				if err != nil {
					k = "err:" + err.Error()
				}
				mu.Lock()
				outs[k]++
				mu.Unlock()
				if ferr != nil {
					continue
				}
				fresh, _ := newMsg(c.Type)
				var derr error
				if uj, ok := fresh.(json.Unmarshaler); ok {
					derr = uj.UnmarshalJSON(first)
				} else {
					derr = protojson.Unmarshal(first, fresh)
				}
				dk := ""
				if derr != nil {
					dk = "err:" + derr.Error()
				} else {
					w, _ := proto.MarshalOptions{Deterministic: true}.Marshal(fresh)
					dk = "ok:" + string(w)
				}
				mu.Lock()
				decs[dk]++
				mu.Unlock()
			}
		}()
	}
	close(start)
	wg.Wait()
	after, _ := proto.MarshalOptions{Deterministic: true}.Marshal(m)
	list := func(mm map[string]int) []string {
		var ks []string
		for k := range mm {
			ks = append(ks, k)
		}
		sort.Strings(ks)
		if len(ks) > 4 {
			ks = ks[:4]
		}
		for i := range ks {
			ks[i] = b64([]byte(ks[i]))
		}
		return ks
	}
	ev["n_out"] = len(outs)
	ev["outs"] = list(outs)
	ev["n_dec"] = len(decs)
	ev["decs"] = list(decs)
	ev["first"] = b64(first)
	ev["before"] = b64(before)
	ev["after"] = b64(after)
	ev["ops"] = par * rounds
	if len(panics) > 0 {
		ev["panic"] = panics[0]
	}
}
