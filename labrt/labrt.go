// Package labrt is the runtime linked into lab binaries: it hosts generated sebuf servers and
// clients inside a child process and speaks a JSONL command/event protocol with the driver.
// It contains no oracle logic: it only executes and records.
package labrt

import (
	"reflect"
	"bufio"
	"bytes"
	"context"
	"encoding/base64"
	"encoding/json"
	"errors"
	"fmt"
	"io"
	"net"
	"net/http"
	"os"
	"runtime/debug"
	"sort"
	"strings"
	"sync"
	"sync/atomic"
	"time"

	sebufhttp "github.com/SebastienMelki/sebuf/http"
	"google.golang.org/protobuf/encoding/protojson"
	"google.golang.org/protobuf/proto"
	"google.golang.org/protobuf/reflect/protoreflect"
	"google.golang.org/protobuf/reflect/protoregistry"
)

// ---------- registries filled by generated glue ----------

// ErrorHook has the signature of the generated ErrorHandler type.
type ErrorHook = func(w http.ResponseWriter, r *http.Request, err error) proto.Message

// ServerReg registers one generated service on a mux.
type ServerReg func(mux *http.ServeMux, hook ErrorHook, mock bool) error

// KV is an ordered header pair.
type KV struct{ K, V string }

// ClientOpts configures a generated client.
type ClientOpts struct {
	HTTP           *http.Client
	ContentType    string
	DefaultHeaders []KV
	Helpers        []KV // typed client-level header helpers (header name -> value)
}

// CallOpts configures one call.
type CallOpts struct {
	Headers     []KV
	ContentType string
	Helpers     []KV
	// Extra: per-call options the lab discovered in the emitted client beyond the documented ones
	// (K = option name without the With<Service> prefix, V = argument text)
	Extra []KV
}

// Invoker calls one RPC through a generated client.
type Invoker func(ctx context.Context, req proto.Message, co CallOpts) (proto.Message, error)

// ClientReg builds a generated client and returns its invokers by RPC name.
type ClientReg func(baseURL string, o ClientOpts) map[string]Invoker

var (
	servers  = map[string]ServerReg{}
	clients  = map[string]ClientReg{}
	hasMock  = map[string]bool{}
	regMu    sync.Mutex
)

// RegisterServer is called from glue init().
func RegisterServer(svc string, r ServerReg, mock bool) {
	regMu.Lock()
	servers[svc] = r
	hasMock[svc] = mock
	regMu.Unlock()
}

// DirectInvoker calls one RPC method of a service implementation object directly (no HTTP).
type DirectInvoker func(ctx context.Context, req proto.Message) (proto.Message, error)

var (
	mocks    = map[string]func() map[string]DirectInvoker{}
	mockInst sync.Map // instance key -> map[string]DirectInvoker of ONE mock object
)

// RegisterMock is called from glue init(): mk builds one New Mock<Svc>Server() and returns its methods.
func RegisterMock(svc string, mk func() map[string]DirectInvoker) {
	regMu.Lock()
	mocks[svc] = mk
	regMu.Unlock()
}

// doFrontDoor starts a listener that answers every request with a redirect (c.Num = 307 or 308, the two
// statuses that oblige a client to repeat method and body) to the same path and query on c.URL: a moved
// API, an http->https hop, a load balancer in front of the generated server.
func doFrontDoor(c *cmd) {
	ln, err := net.Listen("tcp", "127.0.0.1:0")
	if err != nil {
		emit(map[string]any{"ev": "error", "id": c.ID, "err": err.Error()})
		return
	}
	target, status := c.URL, int(c.Num)
	var hits atomic.Int64
	hs := &http.Server{Handler: http.HandlerFunc(func(w http.ResponseWriter, r *http.Request) {
		hits.Add(1)
		io.Copy(io.Discard, r.Body)
		w.Header().Set("Location", target+r.URL.RequestURI())
		w.WriteHeader(status)
	})}
	go hs.Serve(ln)
	emit(map[string]any{"ev": "frontdoor", "id": c.ID, "url": "http://" + ln.Addr().String()})
}

// doMockDirect calls a method of a mock implementation object as Go code would; calls with the same
// reuse key go to the same object.
func doMockDirect(c *cmd) {
	ev := map[string]any{"ev": "mock_out", "id": c.ID}
	defer func() {
		if p := recover(); p != nil {
			ev["panic"] = fmt.Sprint(p)
			ev["stack"] = string(debug.Stack())
		}
		emit(ev)
	}()
	mk, ok := mocks[c.Client]
	if !ok {
		ev["harness"] = "no mock registered for " + c.Client
		return
	}
	key := c.Client + "#" + c.Reuse
	inst, _ := mockInst.Load(key)
	if inst == nil || c.Reuse == "" {
		inst = mk()
		if c.Reuse != "" {
			mockInst.Store(key, inst)
		}
	}
	f, ok := inst.(map[string]DirectInvoker)[c.RPC]
	if !ok {
		ev["harness"] = "unknown rpc " + c.RPC
		return
	}
	req, err := newMsg(c.ReqType)
	if err != nil {
		ev["harness"] = err.Error()
		return
	}
	if err := proto.Unmarshal(unb64(c.Req), req); err != nil {
		ev["harness"] = err.Error()
		return
	}
	resp, cerr := f(context.Background(), req)
	if cerr != nil {
		ev["err"] = describeErr(cerr)
	}
	if resp != nil {
		w, _ := proto.MarshalOptions{Deterministic: true}.Marshal(resp)
		ev["resp"] = b64(w)
		ev["has_resp"] = true
	}
}

// RegisterClient is called from glue init().
func RegisterClient(svc string, r ClientReg) {
	regMu.Lock()
	clients[svc] = r
	regMu.Unlock()
}

// ---------- events ----------

var (
	outMu sync.Mutex
	outW  = bufio.NewWriterSize(os.Stdout, 1<<16)
	seq   atomic.Int64
)

func emit(ev map[string]any) {
	ev["seq"] = seq.Add(1)
	b, err := json.Marshal(ev)
	if err != nil {
		b, _ = json.Marshal(map[string]any{"ev": "internal_error", "err": err.Error()})
	}
	outMu.Lock()
	outW.Write(b)
	outW.WriteByte('\n')
	outW.Flush()
	outMu.Unlock()
}

func b64(b []byte) string { return base64.StdEncoding.EncodeToString(b) }

func unb64(s string) []byte {
	b, _ := base64.StdEncoding.DecodeString(s)
	return b
}

// ---------- recorder (handler side) ----------

type errSpec struct {
	Kind    string `json:"kind"` // plain | sebuf | validation | custom | wrapped-sebuf | wrapped-custom | wrapped-validation
	Message string `json:"message,omitempty"`
	Type    string `json:"type,omitempty"` // custom: message full name
	Wire    string `json:"wire,omitempty"` // custom/validation: wire bytes b64
}

type script struct {
	Resp  *string  `json:"resp"` // wire b64; nil → empty message
	Err   *errSpec `json:"err"`
	Echo  bool     `json:"echo"`  // response = request (when types match) – used by bursts
	Delay int      `json:"delay"` // ms
	Panic bool     `json:"panic"`
}

type server struct {
	id      string
	ln      net.Listener
	srv     *http.Server
	mux     *http.ServeMux
	mu      sync.Mutex
	scripts map[string]*script // rpc -> script; "*" default
	hook    string
	quiet   atomic.Bool // suppress per-request events (burst mode collects in memory)
	entries atomic.Int64
}

type ctxKey struct{}

type reqInfo struct {
	srv  *server
	wid  int64
	hdr  http.Header
	body *countReader
}

// Handle is called by the glue's recording server implementation.
func Handle(ctx context.Context, rpc string, req proto.Message, out proto.Message) (proto.Message, error) {
	ri, _ := ctx.Value(ctxKey{}).(*reqInfo)
	var s *server
	if ri != nil {
		s = ri.srv
	}
	var sc *script
	if s != nil {
		s.entries.Add(1)
		s.mu.Lock()
		sc = s.scripts[rpc]
		if sc == nil {
			sc = s.scripts["*"]
		}
		s.mu.Unlock()
	}
	wire, merr := proto.MarshalOptions{Deterministic: true}.Marshal(req)
	ev := map[string]any{"ev": "handler", "rpc": rpc, "req": b64(wire)}
	if merr != nil {
		ev["req_err"] = merr.Error()
	}
	if req == nil || !req.ProtoReflect().IsValid() {
		ev["req_nil"] = true
	}
	if ri != nil {
		ev["srv"] = s.id
		ev["wid"] = ri.wid
		if ri.body != nil {
			ev["body_read"] = ri.body.n.Load()
		}
		ev["seen_headers"] = SeenHeaders(ri.hdr)
	}
	if s == nil || !s.quiet.Load() {
		emit(ev)
	} else {
		burstRecord(ev)
	}
	if sc == nil {
		return out, nil
	}
	if sc.Delay > 0 {
		time.Sleep(time.Duration(sc.Delay) * time.Millisecond)
	}
	if sc.Panic {
		panic("scripted handler panic")
	}
	if sc.Err != nil {
		return nil, buildErr(sc.Err)
	}
	if sc.Echo {
		// echo: copy request fields into response through wire bytes (types may differ: the
		// driver designs echo schemas so that request and response are wire compatible)
		if err := proto.Unmarshal(wire, out); err != nil {
			return nil, fmt.Errorf("echo: %w", err)
		}
		FillSeen(ctx, out)
		return out, nil
	}
	if sc.Resp != nil {
		if err := proto.Unmarshal(unb64(*sc.Resp), out); err != nil {
			return nil, fmt.Errorf("lab: cannot build scripted response: %w", err)
		}
	}
	return out, nil
}

func buildErr(e *errSpec) error {
	base := strings.TrimPrefix(e.Kind, "wrapped-")
	var err error
	switch base {
	case "plain":
		err = errors.New(e.Message)
	case "sebuf":
		err = &sebufhttp.Error{Message: e.Message}
	case "validation":
		ve := &sebufhttp.ValidationError{}
		_ = proto.Unmarshal(unb64(e.Wire), ve)
		err = ve
	case "custom":
		mt, ferr := protoregistry.GlobalTypes.FindMessageByName(protoreflect.FullName(e.Type))
		if ferr != nil {
			return fmt.Errorf("lab: unknown custom error type %s", e.Type)
		}
		m := mt.New().Interface()
		_ = proto.Unmarshal(unb64(e.Wire), m)
		ce, ok := m.(error)
		if !ok {
			return fmt.Errorf("lab: %s does not implement error", e.Type)
		}
		err = ce
	default:
		err = errors.New("lab: unknown error kind " + e.Kind)
	}
	if strings.HasPrefix(e.Kind, "wrapped-") {
		err = fmt.Errorf("wrapped: %w", err)
	}
	return err
}

// ---------- tap (wire side) ----------

type countReader struct {
	r io.ReadCloser
	n atomic.Int64
}

func (c *countReader) Read(p []byte) (int, error) {
	n, err := c.r.Read(p)
	c.n.Add(int64(n))
	return n, err
}
func (c *countReader) Close() error { return c.r.Close() }

// replayReader yields recorded bytes and then the error the original body reader ended with.
type replayReader struct {
	b   *bytes.Reader
	err error
}

func (r *replayReader) Read(p []byte) (int, error) {
	n, err := r.b.Read(p)
	if err == io.EOF && r.err != nil {
		return n, r.err
	}
	return n, err
}

type respTap struct {
	http.ResponseWriter
	status int
	buf    bytes.Buffer
	wrote  bool
}

func (t *respTap) WriteHeader(c int) {
	if !t.wrote {
		t.status = c
		t.wrote = true
	}
	t.ResponseWriter.WriteHeader(c)
}
func (t *respTap) Write(b []byte) (int, error) {
	if !t.wrote {
		t.status = 200
		t.wrote = true
	}
	if t.buf.Len() < 1<<20 {
		t.buf.Write(b)
	}
	return t.ResponseWriter.Write(b)
}

var widSeq atomic.Int64

func (s *server) tap(next http.Handler) http.Handler {
	return http.HandlerFunc(func(w http.ResponseWriter, r *http.Request) {
		wid := widSeq.Add(1)
		var reqBody []byte
		quiet := s.quiet.Load()
		cr := &countReader{r: r.Body}
		if !quiet {
			// read the body up front for the record, then hand the handler a counting reader over it
			// (a read error of the transport — upload cut short, broken chunk — is replayed after the bytes)
			var rerr error
			reqBody, rerr = io.ReadAll(io.LimitReader(r.Body, 8<<20))
			cr = &countReader{r: io.NopCloser(&replayReader{b: bytes.NewReader(reqBody), err: rerr})}
		}
		r.Body = cr
		ri := &reqInfo{srv: s, wid: wid, hdr: r.Header.Clone(), body: cr}
		rt := &respTap{ResponseWriter: w}
		ctx := context.WithValue(r.Context(), ctxKey{}, ri)
		defer func() {
			if p := recover(); p != nil {
				emit(map[string]any{"ev": "panic", "where": "server", "srv": s.id, "wid": wid, "value": fmt.Sprint(p), "stack": string(debug.Stack()),
					"method": r.Method, "uri": r.RequestURI, "body": b64(reqBody)})
				panic(http.ErrAbortHandler)
			}
		}()
		next.ServeHTTP(rt, r.WithContext(ctx))
		if quiet {
			return
		}
		_, pattern := s.mux.Handler(r)
		emit(map[string]any{
			"ev": "wire", "srv": s.id, "wid": wid, "method": r.Method, "uri": r.RequestURI, "headers": r.Header,
			"body": b64(reqBody), "status": rt.status, "resp_headers": rt.Header(), "resp_body": b64(rt.buf.Bytes()),
			"body_read": cr.n.Load(), "pattern": pattern,
		})
	})
}

func hookFor(kind string) ErrorHook {
	switch kind {
	case "", "none":
		return nil
	case "nil": // returns nil → default behaviour
		return func(w http.ResponseWriter, r *http.Request, err error) proto.Message { return nil }
	case "msg": // returns a custom message, default status
		return func(w http.ResponseWriter, r *http.Request, err error) proto.Message {
			return &sebufhttp.Error{Message: "hook:" + err.Error()}
		}
	case "status": // sets status, returns nil
		return func(w http.ResponseWriter, r *http.Request, err error) proto.Message {
			w.WriteHeader(418)
			return nil
		}
	case "status-msg":
		return func(w http.ResponseWriter, r *http.Request, err error) proto.Message {
			w.WriteHeader(422)
			return &sebufhttp.Error{Message: "hook422"}
		}
	case "status400-msg": // a 400 that is not a ValidationError
		return func(w http.ResponseWriter, r *http.Request, err error) proto.Message {
			w.WriteHeader(400)
			return &sebufhttp.Error{Message: "hook400 not-a-validation-error"}
		}
	case "headers": // sets headers only
		return func(w http.ResponseWriter, r *http.Request, err error) proto.Message {
			w.Header().Set("X-Hook", "seen")
			w.Header().Set("Retry-After", "7")
			return nil
		}
	case "body": // writes the body itself
		return func(w http.ResponseWriter, r *http.Request, err error) proto.Message {
			w.Header().Set("Content-Type", "text/plain")
			w.WriteHeader(409)
			_, _ = w.Write([]byte("hook wrote this"))
			return &sebufhttp.Error{Message: "must be ignored"}
		}
	case "inspect": // uses errors.As as documented and reports what it saw in a header
		return func(w http.ResponseWriter, r *http.Request, err error) proto.Message {
			var ve *sebufhttp.ValidationError
			var he *sebufhttp.Error
			switch {
			case errors.As(err, &ve):
				w.Header().Set("X-Hook-Kind", fmt.Sprintf("validation:%d", len(ve.GetViolations())))
			case errors.As(err, &he):
				w.Header().Set("X-Hook-Kind", "error")
			default:
				w.Header().Set("X-Hook-Kind", "other")
			}
			return nil
		}
	}
	return nil
}

var (
	srvMu sync.Mutex
	srvs  = map[string]*server{}
)

type cmd struct {
	Op   string `json:"op"`
	ID   string `json:"id"`
	Srv  string `json:"srv"`
	Svcs []string `json:"svcs"`
	Hook string `json:"hook"`
	// Hooks, when set, gives every service of Svcs its own hook kind (same order); registrations are made in
	// the order of Svcs, in one process, on one mux
	Hooks []string `json:"hooks"`
	Mock bool   `json:"mock"`
	// script
	RPC    string  `json:"rpc"`
	Script *script `json:"script"`
	// call
	Client   string `json:"client"`
	URL      string `json:"url"`
	Req      string `json:"req"`
	CT       string `json:"ct"`
	CallCT   string `json:"callct"`
	DefHdr   []KV   `json:"defhdr"`
	Hdr      []KV   `json:"hdr"`
	CHelpers []KV   `json:"chelpers"`
	Helpers  []KV   `json:"helpers"`
	Reuse    string `json:"reuse"` // non-empty: keep and reuse one client object under this key
	Timeout  int    `json:"timeout_ms"`
	ReqType  string `json:"req_type"`
	// codec
	Type string `json:"type"`
	Dir  string `json:"dir"`
	In   string `json:"in"`
	Num  int32  `json:"num"`
	Parallel int `json:"parallel"`
	Rounds   int `json:"rounds"`
	// burst
	Burst *burstSpec `json:"burst"`
	// patterns
	Probes []probe `json:"probes"`
}

type probe struct {
	Method string `json:"method"`
	Path   string `json:"path"`
}

func doServe(c *cmd) {
	mux := http.NewServeMux()
	s := &server{id: c.ID, mux: mux, scripts: map[string]*script{}, hook: c.Hook}
	for si, svc := range c.Svcs {
		hk := c.Hook
		if si < len(c.Hooks) {
			hk = c.Hooks[si]
		}
		reg, ok := servers[svc]
		if !ok {
			emit(map[string]any{"ev": "error", "id": c.ID, "err": "unknown service " + svc})
			return
		}
		if c.Mock && !hasMock[svc] {
			emit(map[string]any{"ev": "error", "id": c.ID, "err": "no mock for " + svc})
			return
		}
		if err := reg(mux, hookFor(hk), c.Mock); err != nil {
			emit(map[string]any{"ev": "error", "id": c.ID, "err": "register: " + err.Error()})
			return
		}
	}
	ln, err := net.Listen("tcp", "127.0.0.1:0")
	if err != nil {
		emit(map[string]any{"ev": "error", "id": c.ID, "err": err.Error()})
		return
	}
	s.ln = ln
	s.srv = &http.Server{Handler: s.tap(mux), ErrorLog: nil, ReadHeaderTimeout: 30 * time.Second}
	go func() { _ = s.srv.Serve(ln) }()
	srvMu.Lock()
	srvs[c.ID] = s
	srvMu.Unlock()
	emit(map[string]any{"ev": "serving", "id": c.ID, "url": "http://" + ln.Addr().String()})
}

func newMsg(full string) (proto.Message, error) {
	mt, err := protoregistry.GlobalTypes.FindMessageByName(protoreflect.FullName(full))
	if err != nil {
		return nil, err
	}
	return mt.New().Interface(), nil
}

func describeErr(err error) map[string]any {
	d := map[string]any{"text": err.Error(), "gotype": fmt.Sprintf("%T", err)}
	var ve *sebufhttp.ValidationError
	var he *sebufhttp.Error
	switch {
	case errors.As(err, &ve):
		d["class"] = "validation"
		w, _ := proto.MarshalOptions{Deterministic: true}.Marshal(ve)
		d["wire"] = b64(w)
	case errors.As(err, &he):
		d["class"] = "error"
		d["message"] = he.GetMessage()
		w, _ := proto.MarshalOptions{Deterministic: true}.Marshal(he)
		d["wire"] = b64(w)
	default:
		d["class"] = "other"
	}
	return d
}

var clientCache sync.Map // key -> map[string]Invoker

func getInvokers(c *cmd, hc *http.Client) (map[string]Invoker, error) {
	reg, ok := clients[c.Client]
	if !ok {
		return nil, fmt.Errorf("unknown client %s", c.Client)
	}
	return reg(c.URL, ClientOpts{HTTP: hc, ContentType: c.CT, DefaultHeaders: c.DefHdr, Helpers: c.CHelpers}), nil
}

func doCall(c *cmd) {
	to := time.Duration(c.Timeout) * time.Millisecond
	if to == 0 {
		to = 20 * time.Second
	}
	hc := &http.Client{Transport: &http.Transport{DisableKeepAlives: false, MaxIdleConnsPerHost: 4}}
	defer hc.CloseIdleConnections()
	var inv map[string]Invoker
	var err error
	if cached, ok := clientCache.Load(c.Reuse); ok && c.Reuse != "" {
		inv = cached.(map[string]Invoker) // the same client object as the earlier call(s)
	} else {
		inv, err = getInvokers(c, hc)
		if err == nil && c.Reuse != "" {
			clientCache.Store(c.Reuse, inv)
		}
	}
	if err != nil {
		emit(map[string]any{"ev": "error", "id": c.ID, "err": err.Error()})
		return
	}
	f, ok := inv[c.RPC]
	if !ok {
		emit(map[string]any{"ev": "error", "id": c.ID, "err": "unknown rpc " + c.RPC})
		return
	}
	req, err := newMsg(c.ReqType)
	if err != nil {
		emit(map[string]any{"ev": "error", "id": c.ID, "err": err.Error()})
		return
	}
	if err := proto.Unmarshal(unb64(c.Req), req); err != nil {
		emit(map[string]any{"ev": "error", "id": c.ID, "err": "bad req wire: " + err.Error()})
		return
	}
	ctx, cancel := context.WithTimeout(context.Background(), to)
	defer cancel()
	ev := map[string]any{"ev": "client_return", "id": c.ID}
	func() {
		defer func() {
			if p := recover(); p != nil {
				ev["panic"] = fmt.Sprint(p)
				ev["stack"] = string(debug.Stack())
			}
		}()
		resp, cerr := f(ctx, req, CallOpts{Headers: c.Hdr, ContentType: c.CallCT, Helpers: c.Helpers})
		if cerr != nil {
			ev["err"] = describeErr(cerr)
			if ctx.Err() != nil {
				ev["timeout"] = true
			}
		}
		if resp != nil {
			w, merr := proto.MarshalOptions{Deterministic: true}.Marshal(resp)
			ev["resp"] = b64(w)
			if merr != nil {
				ev["resp_err"] = merr.Error()
			}
		}
	}()
	emit(ev)
}

func doCodec(c *cmd) {
	ev := map[string]any{"ev": "codec_out", "id": c.ID}
	defer func() {
		if p := recover(); p != nil {
			ev["panic"] = fmt.Sprint(p)
			ev["stack"] = string(debug.Stack())
		}
		emit(ev)
	}()
	m, err := newMsg(c.Type)
	if err != nil {
		ev["harness"] = err.Error()
		return
	}
	in := unb64(c.In)
	switch c.Dir {
	case "marshal":
		if err := proto.Unmarshal(in, m); err != nil {
			ev["harness"] = "bad wire: " + err.Error()
			return
		}
		var out []byte
		if mj, ok := m.(json.Marshaler); ok {
			ev["custom"] = true
			out, err = mj.MarshalJSON()
		} else {
			out, err = protojson.Marshal(m)
		}
		if err != nil {
			ev["err"] = err.Error()
			return
		}
		ev["out"] = b64(out)
	case "unmarshal":
		if uj, ok := m.(json.Unmarshaler); ok {
			ev["custom"] = true
			err = uj.UnmarshalJSON(in)
		} else {
			err = protojson.Unmarshal(in, m)
		}
		if err != nil {
			ev["err"] = err.Error()
			return
		}
		w, merr := proto.MarshalOptions{Deterministic: true}.Marshal(m)
		if merr != nil {
			ev["err"] = "remarshal: " + merr.Error()
			return
		}
		ev["out"] = b64(w)
	default:
		ev["harness"] = "bad dir"
	}
}

// doEnumCodec runs the generated JSON methods of an enum type directly (encoding/json is the
// only caller of those methods): marshal enum number c.Num, or unmarshal JSON text c.In.
func doEnumCodec(c *cmd) {
	ev := map[string]any{"ev": "codec_out", "id": c.ID}
	defer func() {
		if p := recover(); p != nil {
			ev["panic"] = fmt.Sprint(p)
			ev["stack"] = string(debug.Stack())
		}
		emit(ev)
	}()
	et, err := protoregistry.GlobalTypes.FindEnumByName(protoreflect.FullName(c.Type))
	if err != nil {
		ev["harness"] = err.Error()
		return
	}
	switch c.Dir {
	case "marshal":
		v := et.New(protoreflect.EnumNumber(c.Num))
		_, custom := v.(json.Marshaler)
		ev["custom"] = custom
		out, err := json.Marshal(v)
		if err != nil {
			ev["err"] = err.Error()
			return
		}
		ev["out"] = b64(out)
	case "unmarshal":
		ptr := reflect.New(reflect.TypeOf(et.New(0)))
		_, custom := ptr.Interface().(json.Unmarshaler)
		ev["custom"] = custom
		if err := json.Unmarshal(unb64(c.In), ptr.Interface()); err != nil {
			ev["err"] = err.Error()
			return
		}
		ev["out"] = b64([]byte(fmt.Sprint(ptr.Elem().Int())))
	default:
		ev["harness"] = "bad dir"
	}
}

func doPatterns(c *cmd) {
	srvMu.Lock()
	s := srvs[c.Srv]
	srvMu.Unlock()
	if s == nil {
		emit(map[string]any{"ev": "error", "id": c.ID, "err": "unknown server"})
		return
	}
	var res []map[string]any
	for _, p := range c.Probes {
		r, err := http.NewRequest(p.Method, "http://lab"+p.Path, nil)
		if err != nil {
			res = append(res, map[string]any{"method": p.Method, "path": p.Path, "err": err.Error()})
			continue
		}
		_, pat := s.mux.Handler(r)
		res = append(res, map[string]any{"method": p.Method, "path": p.Path, "pattern": pat})
	}
	emit(map[string]any{"ev": "patterns", "id": c.ID, "results": res})
}

func listRegistered() {
	var ss, cs []string
	for k := range servers {
		ss = append(ss, k)
	}
	for k := range clients {
		cs = append(cs, k)
	}
	sort.Strings(ss)
	sort.Strings(cs)
	emit(map[string]any{"ev": "registered", "servers": ss, "clients": cs})
}

// Main is the lab binary's entry point.
func Main() {
	in := bufio.NewReaderSize(os.Stdin, 1<<20)
	emit(map[string]any{"ev": "ready", "pid": os.Getpid()})
	for {
		line, err := in.ReadBytes('\n')
		if len(line) > 0 {
			var c cmd
			if jerr := json.Unmarshal(line, &c); jerr != nil {
				emit(map[string]any{"ev": "error", "err": "bad command: " + jerr.Error()})
			} else {
				func() {
					defer func() {
						if p := recover(); p != nil {
							emit(map[string]any{"ev": "panic", "where": "op:" + c.Op, "id": c.ID, "value": fmt.Sprint(p), "stack": string(debug.Stack())})
						}
					}()
					dispatch(&c)
				}()
			}
		}
		if err != nil {
			return
		}
	}
}

func dispatch(c *cmd) {
	switch c.Op {
	case "list":
		listRegistered()
	case "serve":
		doServe(c)
	case "script":
		srvMu.Lock()
		s := srvs[c.Srv]
		srvMu.Unlock()
		if s == nil {
			emit(map[string]any{"ev": "error", "id": c.ID, "err": "unknown server " + c.Srv})
			return
		}
		rpc := c.RPC
		if rpc == "" {
			rpc = "*"
		}
		s.mu.Lock()
		s.scripts[rpc] = c.Script
		s.mu.Unlock()
	case "call":
		doCall(c)
	case "codec":
		doCodec(c)
	case "frontdoor":
		doFrontDoor(c)
	case "mockdirect":
		doMockDirect(c)
	case "codecburst":
		doCodecBurst(c)
	case "enumcodec":
		doEnumCodec(c)
	case "patterns":
		doPatterns(c)
	case "burst":
		doBurst(c)
	case "sync":
		emit(map[string]any{"ev": "synced", "id": c.ID})
	case "stop":
		srvMu.Lock()
		s := srvs[c.Srv]
		delete(srvs, c.Srv)
		srvMu.Unlock()
		if s != nil {
			_ = s.srv.Close()
		}
		emit(map[string]any{"ev": "stopped", "id": c.ID})
	case "quit":
		os.Exit(0)
	default:
		emit(map[string]any{"ev": "error", "id": c.ID, "err": "unknown op " + c.Op})
	}
}
